//! Scripted raw DHT peers: harness-owned endpoints that speak KRPC with the harness's own codec.
//! They play honest-but-scripted peers (to shape lookups and tables with chosen ids), storers
//! answering writes as a plan says, and Byzantine responders (via the hook).

use std::cell::RefCell;
use std::collections::BTreeMap;
use std::net::SocketAddrV4;
use std::rc::Rc;

use crate::bencode::Value;
use crate::krpc::{self, Id, Item, Krpc, MsgOpts};
use crate::sim::{RawCtx, Sim};

#[derive(Clone, Debug, PartialEq)]
pub enum PutReply {
    Ack,
    Error(i64),
    Silent,
}

#[derive(Clone, Debug)]
pub struct ReqLog {
    pub t: u64,
    pub from: SocketAddrV4,
    pub msg: Krpc,
}

pub struct Peer {
    pub id: Id,
    pub addr: SocketAddrV4,
    /// indices of peers this peer tells about (it answers with the closest of them)
    pub knows: Vec<usize>,
    pub token: Vec<u8>,
    pub version: Option<Vec<u8>>,
    pub silent: bool,
    pub ro: bool,
    pub put_reply: PutReply,
    pub immutable: BTreeMap<Id, Vec<u8>>,
    pub mutable: BTreeMap<Id, Item>,
    pub peers: BTreeMap<Id, Vec<SocketAddrV4>>,
    pub signed: BTreeMap<Id, Vec<([u8; 32], u64, [u8; 64])>>,
    /// extra response delay (ns)
    pub delay: u64,
    /// what it reports as the requester's address (None = the truth)
    pub ip_vote: Option<SocketAddrV4>,
    pub requests: Vec<ReqLog>,
    /// writes received: (t, from, query)
    pub writes: Vec<ReqLog>,
    /// how many nodes to return at most
    pub k: usize,
    /// further contacts it tells about (e.g. garbage such as port 0 or a broadcast address)
    pub extra_nodes: Vec<(Id, SocketAddrV4)>,
    /// replies to write requests (acks and errors) carry ro=1 although lookups were answered normally
    pub ro_put: bool,
}

impl Peer {
    pub fn new(id: Id, addr: SocketAddrV4) -> Peer {
        Peer {
            id,
            addr,
            knows: vec![],
            token: vec![addr.port() as u8, (addr.port() >> 8) as u8, id[0], id[1]],
            version: Some(krpc::VERSION_RS6.to_vec()),
            silent: false,
            ro: false,
            put_reply: PutReply::Ack,
            immutable: BTreeMap::new(),
            mutable: BTreeMap::new(),
            peers: BTreeMap::new(),
            signed: BTreeMap::new(),
            delay: 0,
            ip_vote: None,
            requests: vec![],
            writes: vec![],
            k: 8,
            extra_nodes: vec![],
            ro_put: false,
        }
    }
}

pub enum HookResult {
    Default,
    Handled,
}

pub type Hook = Box<dyn FnMut(&mut RawCtx, &mut Shared, usize, SocketAddrV4, &Krpc) -> HookResult>;

pub struct Shared {
    pub peers: Vec<Peer>,
}

#[derive(Clone)]
pub struct RawNet {
    pub shared: Rc<RefCell<Shared>>,
    pub hook: Rc<RefCell<Option<Hook>>>,
}

/// Secure-first then XOR ordering, as the harness computes it.
pub fn sort_closest(target: &Id, nodes: &mut Vec<(Id, SocketAddrV4)>) {
    nodes.sort_by(|a, b| {
        let sa = krpc::bep42_secure(&a.0, *a.1.ip());
        let sb = krpc::bep42_secure(&b.0, *b.1.ip());
        sb.cmp(&sa)
            .then_with(|| krpc::xor(&a.0, target).cmp(&krpc::xor(&b.0, target)))
    });
}

impl RawNet {
    pub fn new() -> RawNet {
        RawNet {
            shared: Rc::new(RefCell::new(Shared { peers: vec![] })),
            hook: Rc::new(RefCell::new(None)),
        }
    }

    pub fn set_hook(&self, h: Hook) {
        *self.hook.borrow_mut() = Some(h);
    }

    /// Register a peer and bind its endpoint in the simulator.
    pub fn add(&self, sim: &Sim, peer: Peer) -> usize {
        let idx = {
            let mut sh = self.shared.borrow_mut();
            sh.peers.push(peer);
            sh.peers.len() - 1
        };
        let addr = self.shared.borrow().peers[idx].addr;
        let me = self.clone();
        sim.add_raw(
            addr,
            Some(Box::new(move |ctx, from, bytes| {
                me.on_datagram(ctx, idx, from, bytes);
            })),
        );
        idx
    }

    pub fn len(&self) -> usize {
        self.shared.borrow().peers.len()
    }

    pub fn with_peer<R>(&self, idx: usize, f: impl FnOnce(&mut Peer) -> R) -> R {
        f(&mut self.shared.borrow_mut().peers[idx])
    }

    pub fn contact(&self, idx: usize) -> (Id, SocketAddrV4) {
        let sh = self.shared.borrow();
        (sh.peers[idx].id, sh.peers[idx].addr)
    }

    fn on_datagram(&self, ctx: &mut RawCtx, idx: usize, from: SocketAddrV4, bytes: &[u8]) {
        let Some(msg) = Krpc::parse(bytes) else { return };
        if !msg.is_query() {
            return;
        }
        // hook first (Byzantine behaviour), with the peer temporarily borrowed
        {
            let mut hook = self.hook.borrow_mut();
            let mut sh = self.shared.borrow_mut();
            sh.peers[idx].requests.push(ReqLog {
                t: ctx.now,
                from,
                msg: msg.clone(),
            });
            if let Some(h) = hook.as_mut() {
                if let HookResult::Handled = h(ctx, &mut sh, idx, from, &msg) {
                    return;
                }
            }
        }
        let reply = {
            let mut sh = self.shared.borrow_mut();
            default_reply(&mut sh, idx, ctx.now, from, &msg)
        };
        if let Some((delay, bytes)) = reply {
            let me = ctx.me;
            ctx.send_after(delay, me, from, bytes);
        }
    }
}

pub fn opts_for(p: &Peer, from: SocketAddrV4) -> MsgOpts {
    MsgOpts {
        version: p.version.clone(),
        ro: if p.ro { Some(1) } else { None },
        ip: Some(p.ip_vote.unwrap_or(from)),
    }
}

pub fn closest_known(sh: &Shared, idx: usize, target: &Id) -> Vec<(Id, SocketAddrV4)> {
    let p = &sh.peers[idx];
    let mut nodes: Vec<(Id, SocketAddrV4)> = p.knows.iter().map(|i| (sh.peers[*i].id, sh.peers[*i].addr)).collect();
    nodes.extend(p.extra_nodes.iter().cloned());
    nodes.sort_by_key(|n| krpc::xor(&n.0, target));
    nodes.truncate(p.k);
    nodes
}

/// The honest default behaviour of a scripted peer.
pub fn default_reply(sh: &mut Shared, idx: usize, now: u64, from: SocketAddrV4, msg: &Krpc) -> Option<(u64, Vec<u8>)> {
    if sh.peers[idx].silent {
        return None;
    }
    let q = msg.query_name()?.to_string();
    let target = msg.target();
    let nodes = target.map(|t| krpc::compact_nodes(&closest_known(sh, idx, &t)));
    let p = &mut sh.peers[idx];
    let mut opts = opts_for(p, from);
    if p.ro_put && matches!(q.as_str(), "put" | "announce_peer" | "announce_signed_peer") {
        opts.ro = Some(1);
    }
    let mut r: Vec<(&str, Value)> = vec![("id", Value::bytes(&p.id))];
    match q.as_str() {
        "ping" => {}
        "find_node" => {
            r.push(("nodes", Value::Bytes(nodes.unwrap_or_default())));
        }
        "get_peers" | "get_signed_peers" | "get" => {
            r.push(("token", Value::bytes(&p.token)));
            r.push(("nodes", Value::Bytes(nodes.unwrap_or_default())));
            let t = target?;
            if q == "get_peers" {
                if let Some(v) = p.peers.get(&t) {
                    r.push(("values", Value::List(v.iter().map(|a| Value::Bytes(krpc::compact_addr(a))).collect())));
                }
            } else if q == "get_signed_peers" {
                if let Some(v) = p.signed.get(&t) {
                    r.push((
                        "peers",
                        Value::List(
                            v.iter()
                                .map(|(k, t, s)| {
                                    let mut b = k.to_vec();
                                    b.extend_from_slice(&t.to_be_bytes());
                                    b.extend_from_slice(s);
                                    Value::Bytes(b)
                                })
                                .collect(),
                        ),
                    ));
                }
            } else if let Some(v) = p.immutable.get(&t) {
                if msg.int_field("seq").is_none() {
                    r.push(("v", Value::bytes(v)));
                }
            } else if let Some(item) = p.mutable.get(&t) {
                let filter = msg.int_field("seq");
                r.push(("seq", Value::Int(item.seq)));
                if !filter.map(|f| f >= item.seq).unwrap_or(false) {
                    r.push(("v", Value::bytes(&item.v)));
                    r.push(("k", Value::bytes(&item.k)));
                    r.push(("sig", Value::bytes(&item.sig)));
                }
            }
        }
        "put" | "announce_peer" | "announce_signed_peer" => {
            p.writes.push(ReqLog {
                t: now,
                from,
                msg: msg.clone(),
            });
            match p.put_reply.clone() {
                PutReply::Ack => {}
                PutReply::Silent => return None,
                PutReply::Error(code) => {
                    // heterogeneous implementations word the same code differently
                    const WORDINGS: [&str; 5] = ["scripted error", "CAS mismatched, re-read value and try again.", "invalid CAS", "sequence number less than current", ""];
                    let text = WORDINGS[(p.id[5] % 5) as usize];
                    return Some((p.delay, krpc::error(&msg.tid, code, text, &opts)));
                }
            }
        }
        _ => return None,
    }
    Some((p.delay, krpc::response(&msg.tid, Value::dict(r), &opts)))
}
