//! The deterministic simulator: virtual clock, in-memory UDP network with faults,
//! coroutine-hosted real `dht` actors, raw (harness-owned) endpoints, API call driving.

use std::cell::{Cell, RefCell};
use std::collections::{BTreeMap, BTreeSet, HashMap, VecDeque};
use std::future::Future;
use std::io;
use std::net::{Ipv4Addr, SocketAddr, SocketAddrV4};
use std::panic::{catch_unwind, AssertUnwindSafe};
use std::pin::Pin;
use std::rc::Rc;
use std::task::{Context, Poll, RawWaker, RawWakerVTable, Waker};
use std::time::Duration;

use corosensei::stack::DefaultStack;
use corosensei::{Coroutine, CoroutineResult, Yielder};
use dht::async_dht::AsyncDht;
use dht::verif::{Env, Snapshot};
use dht::{Dht, ServerSettings};

use crate::rng;

pub type HostId = usize;
pub type RawId = usize;
pub type OpId = usize;

pub const MS: u64 = 1_000_000;
pub const SEC: u64 = 1_000_000_000;
pub const MIN: u64 = 60 * SEC;

const STACK_SIZE: usize = 2 * 1024 * 1024;

// ------------------------------------------------------------------ config

#[derive(Clone, Debug)]
pub struct NetCfg {
    pub latency_min_us: u64,
    pub latency_max_us: u64,
    /// parts per million
    pub drop_ppm: u32,
    pub dup_ppm: u32,
    pub corrupt_ppm: u32,
    /// probability of an extra large delay
    pub slow_ppm: u32,
    pub slow_extra_ms: (u64, u64),
    pub inbox_cap: usize,
    /// extra one-way delay (ms) of datagrams a host sends to its own public address (a slow hairpin
    /// through a router: the path a self-ping takes)
    pub self_path_extra_ms: u64,
}

impl Default for NetCfg {
    fn default() -> Self {
        NetCfg {
            latency_min_us: 1_000,
            latency_max_us: 50_000,
            drop_ppm: 0,
            dup_ppm: 0,
            corrupt_ppm: 0,
            slow_ppm: 0,
            slow_extra_ms: (600, 3000),
            inbox_cap: 1024,
            self_path_extra_ms: 0,
        }
    }
}

#[derive(Clone, Debug)]
pub struct NodeSpec {
    pub ip: Ipv4Addr,
    pub port: u16,
    pub server_mode: bool,
    pub bootstrap: Vec<String>,
    pub public_ip: Option<Ipv4Addr>,
    pub settings: Option<ServerSettings>,
    /// clock rate deviation in parts per million (0 = exact)
    pub clock_ppm: i64,
    pub clock_offset_ns: u64,
    pub wall_offset_us: i64,
    pub nat: Option<usize>,
}

impl NodeSpec {
    pub fn new(ip: Ipv4Addr, port: u16) -> Self {
        NodeSpec {
            ip,
            port,
            server_mode: false,
            bootstrap: vec![],
            public_ip: None,
            settings: None,
            clock_ppm: 0,
            clock_offset_ns: 0,
            wall_offset_us: 0,
            nat: None,
        }
    }
    pub fn server(mut self) -> Self {
        self.server_mode = true;
        self
    }
    pub fn bootstrap(mut self, b: &[SocketAddrV4]) -> Self {
        self.bootstrap = b.iter().map(|a| a.to_string()).collect();
        self
    }
    pub fn addr(&self) -> SocketAddrV4 {
        SocketAddrV4::new(self.ip, self.port)
    }
}

// ------------------------------------------------------------------ trace

#[derive(Clone, Debug, PartialEq)]
pub enum Fate {
    InFlight,
    Delivered,
    DroppedFault,
    DroppedPartition,
    DroppedNat,
    NoSuchDest,
    InboxFull,
    SendError,
}

#[derive(Clone, Debug)]
pub struct Dgram {
    pub id: usize,
    pub t_send: u64,
    pub t_deliver: Option<u64>,
    /// source as seen by the receiver (after NAT)
    pub src: SocketAddrV4,
    pub dst: SocketAddrV4,
    pub bytes: Rc<[u8]>,
    pub fate: Fate,
    pub dup_of: Option<usize>,
    pub corrupted: bool,
    /// real node that sent it, if any
    pub from_host: Option<HostId>,
    /// real node that received it, if any
    pub to_host: Option<HostId>,
    /// per directed pair ordinal
    pub k: u64,
    /// global order in which a real node's actor consumed it from its socket
    pub consumed: Option<u64>,
}

#[derive(Clone, Debug, Default)]
pub struct FaultStats {
    pub sent: u64,
    pub delivered: u64,
    pub dropped: u64,
    pub duplicated: u64,
    pub corrupted: u64,
    pub slowed: u64,
    pub partition_drops: u64,
    pub nat_drops: u64,
    pub no_dest: u64,
    pub inbox_full: u64,
    pub send_errors: u64,
    pub recv_errors: u64,
    pub crashes: u64,
    pub restarts: u64,
    pub stalls: u64,
    pub steps: u64,
    pub explicit_faults: u64,
}

/// What to do to one specific datagram (src, dst, ordinal): explicit faults for sweeps and
/// minimised replays.
#[derive(Clone, Debug, PartialEq)]
pub enum Explicit {
    Drop,
    Dup(u64),
    /// deliver with this extra delay (ns)
    Delay(u64),
}

// ------------------------------------------------------------------ API ops

pub enum Outcome {
    PutImmutable(Result<dht::Id, dht::errors::PutQueryError>),
    PutMutable(Result<dht::Id, dht::errors::PutMutableError>),
    Announce(Result<dht::Id, dht::errors::PutQueryError>),
    Put(Result<dht::Id, dht::errors::PutError>),
    Nodes(Box<[dht::Node]>),
    Bool(bool),
    Immutable(Option<Box<[u8]>>),
    Mutable(Vec<(u64, dht::MutableItem)>),
    MostRecent(Option<dht::MutableItem>),
    Peers(Vec<(u64, Vec<SocketAddrV4>)>),
    SignedPeers(Vec<(u64, Vec<([u8; 32], u64, [u8; 64])>)>),
    Info(crate::api::InfoData),
    ToBootstrap(Vec<String>),
    Unit,
}

pub struct Op {
    pub id: OpId,
    pub host: HostId,
    pub label: String,
    pub issued_at: u64,
    pub done_at: Option<u64>,
    /// number of steps the owning node had run when the call was issued / completed
    pub issued_step: u64,
    pub done_step: Option<u64>,
    pub outcome: Option<Outcome>,
    pub panicked: Option<String>,
    fut: Option<Pin<Box<dyn Future<Output = Outcome>>>>,
}

impl Op {
    pub fn done(&self) -> bool {
        self.done_at.is_some()
    }
}

// ------------------------------------------------------------------ internal state

pub struct Park {
    until: u64,
}

struct NodeHost {
    spec: NodeSpec,
    coro: Option<Coroutine<(), Park, ()>>,
    yielder: *const Yielder<(), Park>,
    dht: Option<AsyncDht>,
    alive: bool,
    started: bool,
    wake_gen: u64,
    stalled_until: u64,
    deferred_wake: bool,
    died: Option<String>,
    ended: bool,
    rng_counter: u64,
    entropy_seed: u64,
    socks: Vec<u64>,
    last_snapshot: Option<Rc<Snapshot>>,
    snap_wanted: bool,
    steps: u64,
    born_at: u64,
    incarnation: u32,
    ops: Vec<OpId>,
    fail_next_send: u32,
    fail_next_recv: u32,
    fail_bind: bool,
    consumed: u64,
    /// trace index of the datagram consumed last
    last_consumed: Option<usize>,
    snap_consumed: u64,
}

struct Sock {
    host: HostId,
    /// address as bound on the host
    local: SocketAddrV4,
    inbox: VecDeque<(Rc<[u8]>, SocketAddrV4, usize)>,
    open: bool,
}

pub struct RawCtx<'a> {
    pub now: u64,
    pub me: SocketAddrV4,
    /// (delay ns, src, dst, bytes)
    pub out: &'a mut Vec<(u64, SocketAddrV4, SocketAddrV4, Vec<u8>)>,
}

impl RawCtx<'_> {
    pub fn reply(&mut self, to: SocketAddrV4, bytes: Vec<u8>) {
        self.out.push((0, self.me, to, bytes));
    }
    pub fn send_after(&mut self, delay: u64, src: SocketAddrV4, to: SocketAddrV4, bytes: Vec<u8>) {
        self.out.push((delay, src, to, bytes));
    }
}

pub type RawHandler = Box<dyn FnMut(&mut RawCtx, SocketAddrV4, &[u8])>;

struct Raw {
    addr: SocketAddrV4,
    handler: Option<RawHandler>,
    open: bool,
}

enum Endpoint {
    Sock(u64),
    Raw(RawId),
}

struct Nat {
    public_ip: Ipv4Addr,
    next_port: u16,
    /// internal -> external port
    map: BTreeMap<SocketAddrV4, u16>,
    rev: BTreeMap<u16, SocketAddrV4>,
    /// (external port, remote ip) pairs allowed inbound (restricted cone)
    allowed: BTreeSet<(u16, Ipv4Addr)>,
}

enum Ev {
    Deliver(usize),
    Wake(HostId, u64),
    Call(Box<dyn FnOnce(&Sim)>),
}

struct State {
    seed: u64,
    now: u64,
    seq: u64,
    events: BTreeMap<(u64, u64), Ev>,
    hosts: Vec<NodeHost>,
    socks: Vec<Sock>,
    raws: Vec<Raw>,
    addr_map: BTreeMap<SocketAddrV4, Endpoint>,
    nats: Vec<Nat>,
    acting: Option<HostId>,
    pending_spawn: Option<Box<dyn FnOnce() + Send + 'static>>,
    net: NetCfg,
    pair_count: HashMap<(SocketAddrV4, SocketAddrV4), u64>,
    explicit: HashMap<(SocketAddrV4, SocketAddrV4, u64), Explicit>,
    /// blocked directed ip pairs
    blocked: BTreeSet<(Ipv4Addr, Ipv4Addr)>,
    trace: Vec<Dgram>,
    keep_trace: bool,
    stats: FaultStats,
    ops: Vec<Op>,
    snap_mode: SnapMode,
    wall_epoch_us: u64,
    /// rolling hash over the ordered event sequence (determinism fingerprint)
    fingerprint: u64,
    /// rolling hash over the delivery order (kind,src,dst) only
    order_fp: u64,
    consume_seq: u64,
    /// in OnConsume mode: additionally snapshot every n-th step (0 = never)
    snap_every: u64,
}

#[derive(Clone, Copy, Debug, PartialEq)]
pub enum SnapMode {
    Off,
    Every,
    OnDemand,
    /// only after steps in which the actor consumed a datagram (or on demand)
    OnConsume,
}

pub struct Inner {
    st: RefCell<State>,
    observer: RefCell<Option<Box<dyn FnMut(HostId, u64, &Snapshot)>>>,
    in_observer: Cell<bool>,
}

#[derive(Clone)]
pub struct Sim {
    inner: Rc<Inner>,
}

// ------------------------------------------------------------------ panic capture

thread_local! {
    static LAST_PANIC: RefCell<Option<String>> = const { RefCell::new(None) };
}

pub fn install_panic_hook() {
    static ONCE: std::sync::Once = std::sync::Once::new();
    ONCE.call_once(|| {
        let prev = std::panic::take_hook();
        std::panic::set_hook(Box::new(move |info| {
            let msg = if let Some(s) = info.payload().downcast_ref::<&str>() {
                s.to_string()
            } else if let Some(s) = info.payload().downcast_ref::<String>() {
                s.clone()
            } else {
                "<non-string panic>".to_string()
            };
            let loc = info
                .location()
                .map(|l| format!("{}:{}", l.file(), l.line()))
                .unwrap_or_default();
            let quiet = QUIET.with(|q| q.get());
            LAST_PANIC.with(|p| *p.borrow_mut() = Some(format!("{msg} @ {loc}")));
            if !quiet {
                prev(info);
            }
        }));
    });
}

thread_local! {
    static QUIET: Cell<bool> = const { Cell::new(false) };
}

fn with_quiet<R>(f: impl FnOnce() -> R) -> R {
    let prev = QUIET.with(|q| q.replace(true));
    let r = f();
    QUIET.with(|q| q.set(prev));
    r
}

fn take_panic() -> String {
    LAST_PANIC
        .with(|p| p.borrow_mut().take())
        .unwrap_or_else(|| "<unknown panic>".into())
}

// ------------------------------------------------------------------ Env

impl Inner {
    fn acting(&self) -> HostId {
        self.st
            .borrow()
            .acting
            .expect("Env call with no acting host")
    }
}

fn node_clock(h: &NodeHost, now: u64) -> u64 {
    // offset + rate * T  (rate = 1 + ppm/1e6)
    let skew = (now as i128 * h.spec.clock_ppm as i128) / 1_000_000;
    (h.spec.clock_offset_ns as i128 + now as i128 + skew).max(0) as u64
}

fn global_duration(h: &NodeHost, d: u64) -> u64 {
    // local duration d corresponds to d / rate global
    let rate_ppm = 1_000_000 + h.spec.clock_ppm;
    ((d as i128 * 1_000_000) / rate_ppm as i128).max(1) as u64
}

impl Env for Inner {
    fn now_ns(&self) -> u64 {
        let st = self.st.borrow();
        let h = &st.hosts[st.acting.expect("no acting host")];
        node_clock(h, st.now)
    }

    fn wall_us(&self) -> u64 {
        let st = self.st.borrow();
        let h = &st.hosts[st.acting.expect("no acting host")];
        let local = node_clock(h, st.now) / 1000;
        (st.wall_epoch_us as i128 + local as i128 + h.spec.wall_offset_us as i128).max(0) as u64
    }

    fn fill_random(&self, buf: &mut [u8]) {
        let mut st = self.st.borrow_mut();
        let a = st.acting.expect("no acting host");
        let h = &mut st.hosts[a];
        for chunk in buf.chunks_mut(8) {
            h.rng_counter += 1;
            let v = rng::key(h.entropy_seed, &[h.rng_counter]).to_le_bytes();
            chunk.copy_from_slice(&v[..chunk.len()]);
        }
    }

    fn hash_seed(&self) -> u64 {
        let st = self.st.borrow();
        let a = st.acting.expect("no acting host");
        rng::key(st.seed, &[rng::tag("hash"), a as u64])
    }

    fn udp_bind(&self, addr: SocketAddr) -> io::Result<(u64, SocketAddr)> {
        let mut st = self.st.borrow_mut();
        let a = st.acting.expect("no acting host");
        if st.hosts[a].fail_bind {
            return Err(io::Error::new(io::ErrorKind::AddrInUse, "simulated AddrInUse"));
        }
        let ip = st.hosts[a].spec.ip;
        let mut port = addr.port();
        if port == 0 {
            // ephemeral: deterministic per host
            port = 40000 + (a as u16 % 20000);
            while st.addr_map.contains_key(&SocketAddrV4::new(ip, port)) {
                port += 1;
            }
        }
        let local = SocketAddrV4::new(ip, port);
        if st.addr_map.contains_key(&local) {
            return Err(io::Error::new(io::ErrorKind::AddrInUse, "address in use"));
        }
        let id = st.socks.len() as u64;
        st.socks.push(Sock {
            host: a,
            local,
            inbox: VecDeque::new(),
            open: true,
        });
        st.addr_map.insert(local, Endpoint::Sock(id));
        st.hosts[a].socks.push(id);
        // like the OS, report the address as bound (0.0.0.0:port)
        Ok((id, SocketAddr::new(addr.ip(), port)))
    }

    fn udp_send(&self, sock: u64, buf: &[u8], to: SocketAddr) -> io::Result<usize> {
        let SocketAddr::V4(to) = to else {
            return Err(io::Error::new(io::ErrorKind::Unsupported, "ipv6"));
        };
        let mut st = self.st.borrow_mut();
        let host = st.socks[sock as usize].host;
        let src = st.socks[sock as usize].local;
        if st.hosts[host].fail_next_send > 0 {
            st.hosts[host].fail_next_send -= 1;
            st.stats.send_errors += 1;
            return Err(io::Error::other("simulated send failure"));
        }
        // what the OS does with garbage destinations: port 0 is EINVAL, the broadcast address
        // EACCES on a socket without SO_BROADCAST
        if to.port() == 0 || to.ip().is_broadcast() {
            st.stats.send_errors += 1;
            let kind = if to.port() == 0 { io::ErrorKind::InvalidInput } else { io::ErrorKind::PermissionDenied };
            return Err(io::Error::new(kind, "simulated: invalid destination"));
        }
        // what Linux does with the unspecified destination 0.0.0.0:P: it is delivered to the local host,
        // and a reply then comes from a concrete address of this host
        let to = if to.ip().is_unspecified() { SocketAddrV4::new(*src.ip(), to.port()) } else { to };
        st.transmit(Some(host), src, to, buf.into(), 0);
        Ok(buf.len())
    }

    fn udp_recv(
        &self,
        sock: u64,
        buf: &mut [u8],
        timeout: Option<Duration>,
    ) -> io::Result<(usize, SocketAddr)> {
        let (host, yielder) = {
            let mut st = self.st.borrow_mut();
            let host = st.socks[sock as usize].host;
            if st.hosts[host].fail_next_recv > 0 {
                st.hosts[host].fail_next_recv -= 1;
                st.stats.recv_errors += 1;
                return Err(io::Error::other("simulated recv failure"));
            }
            if let Some((bytes, from, id)) = st.socks[sock as usize].inbox.pop_front() {
                st.consume_seq += 1;
                st.trace[id].consumed = Some(st.consume_seq);
                st.hosts[host].consumed += 1;
                st.hosts[host].last_consumed = Some(id);
                let n = bytes.len().min(buf.len());
                buf[..n].copy_from_slice(&bytes[..n]);
                return Ok((n, SocketAddr::V4(from)));
            }
            (host, st.hosts[host].yielder)
        };
        let until = {
            let st = self.st.borrow();
            match timeout {
                Some(d) => st.now + global_duration(&st.hosts[host], d.as_nanos() as u64),
                None => u64::MAX,
            }
        };
        // Suspend: the scheduler resumes us when a datagram is queued or the deadline passes.
        unsafe { (*yielder).suspend(Park { until }) };
        let mut st = self.st.borrow_mut();
        if let Some((bytes, from, id)) = st.socks[sock as usize].inbox.pop_front() {
            st.consume_seq += 1;
            st.trace[id].consumed = Some(st.consume_seq);
            st.hosts[host].consumed += 1;
            st.hosts[host].last_consumed = Some(id);
            let n = bytes.len().min(buf.len());
            buf[..n].copy_from_slice(&bytes[..n]);
            return Ok((n, SocketAddr::V4(from)));
        }
        Err(io::Error::new(io::ErrorKind::WouldBlock, "timed out"))
    }

    fn udp_close(&self, sock: u64) {
        let mut st = self.st.borrow_mut();
        let s = &mut st.socks[sock as usize];
        if s.open {
            s.open = false;
            s.inbox.clear();
            let local = s.local;
            if let Some(Endpoint::Sock(id)) = st.addr_map.get(&local) {
                if *id == sock {
                    st.addr_map.remove(&local);
                }
            }
        }
    }

    fn spawn(&self, f: Box<dyn FnOnce() + Send + 'static>) -> io::Result<()> {
        let mut st = self.st.borrow_mut();
        assert!(st.pending_spawn.is_none(), "two spawns pending");
        st.pending_spawn = Some(f);
        Ok(())
    }

    fn observe(&self, snapshot: &dyn Fn() -> Snapshot) {
        let (host, now, want) = {
            let st = self.st.borrow();
            let host = st.acting.expect("no acting host");
            let want = match st.snap_mode {
                SnapMode::Off => false,
                SnapMode::Every => true,
                SnapMode::OnDemand => st.hosts[host].snap_wanted,
                SnapMode::OnConsume => {
                    st.hosts[host].snap_wanted
                        || st.hosts[host].consumed != st.hosts[host].snap_consumed
                        || (st.snap_every > 0 && st.hosts[host].steps % st.snap_every == 0)
                }
            };
            (host, st.now, want)
        };
        if !want {
            return;
        }
        let snap = Rc::new(snapshot());
        {
            let mut st = self.st.borrow_mut();
            st.hosts[host].last_snapshot = Some(snap.clone());
            st.hosts[host].snap_wanted = false;
            st.hosts[host].snap_consumed = st.hosts[host].consumed;
        }
        if !self.in_observer.get() {
            self.in_observer.set(true);
            if let Some(obs) = self.observer.borrow_mut().as_mut() {
                obs(host, now, &snap);
            }
            self.in_observer.set(false);
        }
    }
}

impl State {
    fn push(&mut self, at: u64, ev: Ev) {
        self.seq += 1;
        let at = at.max(self.now);
        self.events.insert((at, self.seq), ev);
    }

    fn mix(&mut self, parts: &[u64]) {
        self.fingerprint = rng::key(self.fingerprint, parts);
    }

    /// Put a datagram on the wire. `src` is the sender's local address (pre-NAT).
    fn transmit(
        &mut self,
        from_host: Option<HostId>,
        src: SocketAddrV4,
        dst: SocketAddrV4,
        bytes: Rc<[u8]>,
        extra_delay: u64,
    ) {
        // NAT rewrite of the source
        let mut wire_src = src;
        let mut hairpin = false;
        if let Some(h) = from_host {
            if let Some(n) = self.hosts[h].spec.nat {
                let nat = &mut self.nats[n];
                let ext = match nat.map.get(&src) {
                    Some(p) => *p,
                    None => {
                        let p = nat.next_port;
                        nat.next_port += 1;
                        nat.map.insert(src, p);
                        nat.rev.insert(p, src);
                        p
                    }
                };
                nat.allowed.insert((ext, *dst.ip()));
                wire_src = SocketAddrV4::new(nat.public_ip, ext);
                if *dst.ip() == nat.public_ip {
                    // no hairpinning: a datagram from the inside to the NAT's own public address is lost
                    hairpin = true;
                }
            }
        }
        let kref = self.pair_count.entry((wire_src, dst)).or_insert(0);
        let k = *kref;
        *kref += 1;
        self.stats.sent += 1;
        let seed = self.seed;
        let pk = |label: &str| {
            rng::key(
                seed,
                &[
                    rng::tag(label),
                    u32::from(*wire_src.ip()) as u64,
                    wire_src.port() as u64,
                    u32::from(*dst.ip()) as u64,
                    dst.port() as u64,
                    k,
                ],
            )
        };
        let span = self.net.latency_max_us.saturating_sub(self.net.latency_min_us) + 1;
        let mut latency = (self.net.latency_min_us + pk("lat") % span) * 1000 + extra_delay;
        if wire_src.ip() == dst.ip() {
            latency += self.net.self_path_extra_ms * 1_000_000;
        }
        let mut drop = (pk("drop") % 1_000_000) < self.net.drop_ppm as u64;
        if hairpin {
            self.stats.nat_drops += 1;
            drop = true;
        }
        let mut dup = (pk("dup") % 1_000_000) < self.net.dup_ppm as u64;
        let corrupt = (pk("corrupt") % 1_000_000) < self.net.corrupt_ppm as u64;
        let slow = (pk("slow") % 1_000_000) < self.net.slow_ppm as u64;
        let mut dup_delay = (pk("dupd") % 200_000 + 100) * 1000;
        if slow {
            let (a, b) = self.net.slow_extra_ms;
            latency += (a + pk("slowd") % (b - a + 1)) * MS;
            self.stats.slowed += 1;
        }
        if let Some(e) = self.explicit.get(&(wire_src, dst, k)).cloned() {
            self.stats.explicit_faults += 1;
            match e {
                Explicit::Drop => drop = true,
                Explicit::Dup(d) => {
                    dup = true;
                    dup_delay = d;
                }
                Explicit::Delay(d) => latency += d,
            }
        }
        let mut payload = bytes;
        let mut corrupted = false;
        if corrupt && !payload.is_empty() {
            let mut v = payload.to_vec();
            let h = pk("corrupt-how");
            match h % 3 {
                0 => {
                    let i = (h >> 8) as usize % v.len();
                    v[i] ^= 1 << ((h >> 40) % 8);
                }
                1 => {
                    let n = (h >> 8) as usize % v.len();
                    v.truncate(n);
                }
                _ => {
                    let i = (h >> 8) as usize % v.len();
                    v[i] = (h >> 48) as u8;
                }
            }
            payload = v.into();
            corrupted = true;
            self.stats.corrupted += 1;
        }
        let id = self.trace.len();
        let fate = if drop {
            self.stats.dropped += 1;
            Fate::DroppedFault
        } else {
            Fate::InFlight
        };
        self.mix(&[1, id as u64, u32::from(*wire_src.ip()) as u64, dst.port() as u64, k]);
        self.trace.push(Dgram {
            id,
            t_send: self.now,
            t_deliver: None,
            src: wire_src,
            dst,
            bytes: payload.clone(),
            fate,
            dup_of: None,
            corrupted,
            from_host,
            to_host: None,
            k,
            consumed: None,
        });
        if drop {
            return;
        }
        let at = self.now + latency;
        self.push(at, Ev::Deliver(id));
        if dup {
            self.stats.duplicated += 1;
            let id2 = self.trace.len();
            let mut d = self.trace[id].clone();
            d.id = id2;
            d.dup_of = Some(id);
            self.trace.push(d);
            self.push(at + dup_delay, Ev::Deliver(id2));
        }
    }
}

// ------------------------------------------------------------------ noop waker

fn noop_waker() -> Waker {
    fn clone(_: *const ()) -> RawWaker {
        RawWaker::new(std::ptr::null(), &VTABLE)
    }
    fn noop(_: *const ()) {}
    static VTABLE: RawWakerVTable = RawWakerVTable::new(clone, noop, noop, noop);
    unsafe { Waker::from_raw(RawWaker::new(std::ptr::null(), &VTABLE)) }
}

// ------------------------------------------------------------------ Sim

impl Sim {
    pub fn new(seed: u64, net: NetCfg) -> Sim {
        install_panic_hook();
        let inner = Rc::new(Inner {
            st: RefCell::new(State {
                seed,
                now: 0,
                seq: 0,
                events: BTreeMap::new(),
                hosts: vec![],
                socks: vec![],
                raws: vec![],
                addr_map: BTreeMap::new(),
                nats: vec![],
                acting: None,
                pending_spawn: None,
                net,
                pair_count: HashMap::new(),
                explicit: HashMap::new(),
                blocked: BTreeSet::new(),
                trace: vec![],
                keep_trace: true,
                stats: FaultStats::default(),
                ops: vec![],
                snap_mode: SnapMode::Every,
                // 2026-01-01T00:00:00Z plus a seed-dependent offset
                wall_epoch_us: 1_767_225_600_000_000 + rng::key(seed, &[rng::tag("epoch")]) % 1_000_000_000,
                fingerprint: seed,
                order_fp: 0,
                consume_seq: 0,
                snap_every: 0,
            }),
            observer: RefCell::new(None),
            in_observer: Cell::new(false),
        });
        dht::verif::install(Some(inner.clone() as Rc<dyn Env>));
        Sim { inner }
    }

    pub fn now(&self) -> u64 {
        self.inner.st.borrow().now
    }
    pub fn seed(&self) -> u64 {
        self.inner.st.borrow().seed
    }
    pub fn set_snap_mode(&self, m: SnapMode) {
        self.inner.st.borrow_mut().snap_mode = m;
    }
    pub fn set_snap_every(&self, n: u64) {
        self.inner.st.borrow_mut().snap_every = n;
    }
    pub fn set_observer(&self, f: Box<dyn FnMut(HostId, u64, &Snapshot)>) {
        *self.inner.observer.borrow_mut() = Some(f);
    }
    pub fn clear_observer(&self) {
        *self.inner.observer.borrow_mut() = None;
    }
    pub fn set_net(&self, net: NetCfg) {
        self.inner.st.borrow_mut().net = net;
    }
    pub fn net(&self) -> NetCfg {
        self.inner.st.borrow().net.clone()
    }
    pub fn stats(&self) -> FaultStats {
        self.inner.st.borrow().stats.clone()
    }
    pub fn fingerprint(&self) -> u64 {
        self.inner.st.borrow().fingerprint
    }
    pub fn order_fingerprint(&self) -> u64 {
        self.inner.st.borrow().order_fp
    }
    pub fn set_explicit(&self, src: SocketAddrV4, dst: SocketAddrV4, k: u64, e: Explicit) {
        self.inner.st.borrow_mut().explicit.insert((src, dst, k), e);
    }
    pub fn block(&self, a: Ipv4Addr, b: Ipv4Addr) {
        self.inner.st.borrow_mut().blocked.insert((a, b));
    }
    pub fn unblock(&self, a: Ipv4Addr, b: Ipv4Addr) {
        self.inner.st.borrow_mut().blocked.remove(&(a, b));
    }
    pub fn unblock_all(&self) {
        self.inner.st.borrow_mut().blocked.clear();
    }
    pub fn add_nat(&self, public_ip: Ipv4Addr) -> usize {
        let mut st = self.inner.st.borrow_mut();
        st.nats.push(Nat {
            public_ip,
            next_port: 20000,
            map: BTreeMap::new(),
            rev: BTreeMap::new(),
            allowed: BTreeSet::new(),
        });
        st.nats.len() - 1
    }

    /// Read access to the datagram trace.
    pub fn with_trace<R>(&self, f: impl FnOnce(&[Dgram]) -> R) -> R {
        f(&self.inner.st.borrow().trace)
    }
    pub fn trace_len(&self) -> usize {
        self.inner.st.borrow().trace.len()
    }

    pub fn at(&self, t: u64, f: impl FnOnce(&Sim) + 'static) {
        self.inner.st.borrow_mut().push(t, Ev::Call(Box::new(f)));
    }
    pub fn after(&self, d: u64, f: impl FnOnce(&Sim) + 'static) {
        let t = self.now() + d;
        self.at(t, f);
    }

    // ---------------------------------------------------------- raw endpoints

    pub fn add_raw(&self, addr: SocketAddrV4, handler: Option<RawHandler>) -> RawId {
        let mut st = self.inner.st.borrow_mut();
        let id = st.raws.len();
        st.raws.push(Raw {
            addr,
            handler,
            open: true,
        });
        st.addr_map.insert(addr, Endpoint::Raw(id));
        id
    }
    pub fn close_raw(&self, id: RawId) {
        let mut st = self.inner.st.borrow_mut();
        st.raws[id].open = false;
        let addr = st.raws[id].addr;
        if let Some(Endpoint::Raw(r)) = st.addr_map.get(&addr) {
            if *r == id {
                st.addr_map.remove(&addr);
            }
        }
    }
    /// Send a datagram from a harness-owned (or spoofed) source address, now.
    pub fn raw_send(&self, src: SocketAddrV4, dst: SocketAddrV4, bytes: Vec<u8>) {
        self.inner
            .st
            .borrow_mut()
            .transmit(None, src, dst, bytes.into(), 0);
    }

    // ---------------------------------------------------------- nodes

    /// Create and start a node now. Returns its host id; `node_error` tells whether building failed.
    pub fn add_node(&self, spec: NodeSpec) -> HostId {
        let host = {
            let mut st = self.inner.st.borrow_mut();
            let id = st.hosts.len();
            let seed = st.seed;
            let now = st.now;
            st.hosts.push(NodeHost {
                spec,
                coro: None,
                yielder: std::ptr::null(),
                dht: None,
                alive: false,
                started: false,
                wake_gen: 0,
                stalled_until: 0,
                deferred_wake: false,
                died: None,
                ended: false,
                rng_counter: 0,
                entropy_seed: rng::key(seed, &[rng::tag("entropy"), id as u64, 0]),
                socks: vec![],
                last_snapshot: None,
                snap_wanted: true,
                steps: 0,
                born_at: now,
                incarnation: 0,
                ops: vec![],
                fail_next_send: 0,
                fail_next_recv: 0,
                fail_bind: false,
                consumed: 0,
                last_consumed: None,
                snap_consumed: 0,
            });
            id
        };
        self.start_node(host);
        host
    }

    pub fn set_fail_bind(&self, host: HostId, v: bool) {
        self.inner.st.borrow_mut().hosts[host].fail_bind = v;
    }

    fn start_node(&self, host: HostId) {
        let spec = self.inner.st.borrow().hosts[host].spec.clone();
        let mut builder = Dht::builder();
        if spec.server_mode {
            builder.server_mode();
        }
        if spec.bootstrap.is_empty() {
            builder.no_bootstrap();
        } else {
            builder.bootstrap(&spec.bootstrap);
        }
        builder.port(spec.port);
        if let Some(ip) = spec.public_ip {
            builder.public_ip(ip);
        }
        if let Some(s) = spec.settings.clone() {
            builder.server_settings(s);
        }
        let mut fut: Pin<Box<dyn Future<Output = Result<AsyncDht, io::Error>>>> =
            Box::pin(async move { builder.build_async().await });
        let waker = noop_waker();
        let mut cx = Context::from_waker(&waker);
        self.set_acting(Some(host));
        let first = fut.as_mut().poll(&mut cx);
        assert!(first.is_pending(), "build_async resolved before the actor ran");
        // the poll called verif::spawn
        let f = self
            .inner
            .st
            .borrow_mut()
            .pending_spawn
            .take()
            .expect("build_async did not spawn the actor");
        let inner_ptr: *const Inner = Rc::as_ptr(&self.inner);
        let stack = DefaultStack::new(STACK_SIZE).expect("stack");
        let coro: Coroutine<(), Park, ()> = Coroutine::with_stack(stack, move |yielder, ()| {
            // publish the yielder so that udp_recv can suspend
            unsafe {
                let inner = &*inner_ptr;
                inner.st.borrow_mut().hosts[host].yielder = yielder as *const _;
            }
            f();
        });
        {
            let mut st = self.inner.st.borrow_mut();
            let h = &mut st.hosts[host];
            h.coro = Some(coro);
            h.alive = true;
            h.started = true;
            h.ended = false;
            h.died = None;
        }
        self.step(host);
        self.set_acting(Some(host));
        match with_quiet(|| catch_unwind(AssertUnwindSafe(|| fut.as_mut().poll(&mut cx)))) {
            Ok(Poll::Ready(Ok(dht))) => {
                self.inner.st.borrow_mut().hosts[host].dht = Some(dht);
            }
            Ok(Poll::Ready(Err(e))) => {
                let mut st = self.inner.st.borrow_mut();
                st.hosts[host].alive = false;
                st.hosts[host].died = Some(format!("build error: {e}"));
            }
            Ok(Poll::Pending) => {
                let mut st = self.inner.st.borrow_mut();
                st.hosts[host].alive = false;
                st.hosts[host].died = Some("build_async still pending after first step".into());
            }
            Err(_) => {
                let mut st = self.inner.st.borrow_mut();
                st.hosts[host].alive = false;
                st.hosts[host].died = Some(format!("build panicked: {}", take_panic()));
            }
        }
        self.set_acting(None);
    }

    fn set_acting(&self, h: Option<HostId>) {
        self.inner.st.borrow_mut().acting = h;
    }

    pub fn dht(&self, host: HostId) -> Option<AsyncDht> {
        self.inner.st.borrow().hosts[host].dht.clone()
    }
    pub fn node_addr(&self, host: HostId) -> SocketAddrV4 {
        self.inner.st.borrow().hosts[host].spec.addr()
    }
    pub fn node_spec(&self, host: HostId) -> NodeSpec {
        self.inner.st.borrow().hosts[host].spec.clone()
    }
    pub fn alive(&self, host: HostId) -> bool {
        self.inner.st.borrow().hosts[host].alive
    }
    /// Panic message if the node's actor ended by panic (or failed to build).
    pub fn died(&self, host: HostId) -> Option<String> {
        self.inner.st.borrow().hosts[host].died.clone()
    }
    pub fn host_count(&self) -> usize {
        self.inner.st.borrow().hosts.len()
    }
    pub fn steps(&self, host: HostId) -> u64 {
        self.inner.st.borrow().hosts[host].steps
    }
    pub fn snapshot(&self, host: HostId) -> Option<Rc<Snapshot>> {
        self.inner.st.borrow().hosts[host].last_snapshot.clone()
    }
    pub fn want_snapshot(&self, host: HostId) {
        self.inner.st.borrow_mut().hosts[host].snap_wanted = true;
    }
    /// Source address and bytes of the datagram the node's actor consumed last.
    pub fn last_consumed(&self, host: HostId) -> Option<(SocketAddrV4, Rc<[u8]>)> {
        let st = self.inner.st.borrow();
        st.hosts[host].last_consumed.map(|id| (st.trace[id].src, st.trace[id].bytes.clone()))
    }
    /// Number of datagrams the node's actor has consumed so far.
    pub fn consumed(&self, host: HostId) -> u64 {
        self.inner.st.borrow().hosts[host].consumed
    }
    /// The node's monotonic clock reading at global time `t`.
    pub fn host_clock_at(&self, host: HostId, t: u64) -> u64 {
        let st = self.inner.st.borrow();
        node_clock(&st.hosts[host], t)
    }
    /// The node's wall clock (us since epoch) at global time `t`.
    pub fn host_wall_us_at(&self, host: HostId, t: u64) -> u64 {
        let st = self.inner.st.borrow();
        let h = &st.hosts[host];
        let local = node_clock(h, t) / 1000;
        (st.wall_epoch_us as i128 + local as i128 + h.spec.wall_offset_us as i128).max(0) as u64
    }
    pub fn host_clock(&self, host: HostId) -> u64 {
        let st = self.inner.st.borrow();
        node_clock(&st.hosts[host], st.now)
    }
    pub fn host_wall_us(&self, host: HostId) -> u64 {
        let st = self.inner.st.borrow();
        let h = &st.hosts[host];
        let local = node_clock(h, st.now) / 1000;
        (st.wall_epoch_us as i128 + local as i128 + h.spec.wall_offset_us as i128).max(0) as u64
    }
    pub fn fail_sends(&self, host: HostId, n: u32) {
        self.inner.st.borrow_mut().hosts[host].fail_next_send = n;
    }
    pub fn fail_recvs(&self, host: HostId, n: u32) {
        self.inner.st.borrow_mut().hosts[host].fail_next_recv = n;
    }

    /// Run one step of a node: resume its coroutine until it parks again.
    fn step(&self, host: HostId) {
        let coro = {
            let mut st = self.inner.st.borrow_mut();
            let now = st.now;
            let h = &mut st.hosts[host];
            if !h.alive || h.coro.is_none() {
                return;
            }
            if h.stalled_until > now {
                h.deferred_wake = true;
                return;
            }
            h.wake_gen += 1;
            h.steps += 1;
            st.stats.steps += 1;
            st.acting = Some(host);
            st.hosts[host].coro.take()
        };
        let Some(mut coro) = coro else { return };
        let result = with_quiet(|| catch_unwind(AssertUnwindSafe(|| coro.resume(()))));
        let mut st = self.inner.st.borrow_mut();
        st.acting = None;
        #[allow(clippy::drop_non_drop)]
        match result {
            Ok(CoroutineResult::Yield(park)) => {
                let gen = st.hosts[host].wake_gen;
                st.hosts[host].coro = Some(coro);
                // if datagrams are already queued (arrived during the step), wake at once
                let has_mail = st.hosts[host]
                    .socks
                    .iter()
                    .any(|s| !st.socks[*s as usize].inbox.is_empty());
                let at = if has_mail { st.now } else { park.until };
                if at != u64::MAX {
                    st.push(at, Ev::Wake(host, gen));
                }
                drop(st);
            }
            Ok(CoroutineResult::Return(())) => {
                st.hosts[host].alive = false;
                st.hosts[host].ended = true;
                drop(st);
                drop(coro);
            }
            Err(_) => {
                st.hosts[host].alive = false;
                st.hosts[host].died = Some(take_panic());
                let socks = st.hosts[host].socks.clone();
                drop(st);
                // the coroutine is poisoned after a panic; its stack has been unwound
                drop(coro);
                for s in socks {
                    self.inner.udp_close(s);
                }
            }
        }
        self.poll_ops(host);
    }

    /// Kill a node: its actor stack is unwound, its socket closed, handles and pending calls dropped.
    pub fn crash(&self, host: HostId) {
        let (coro, ops) = {
            let mut st = self.inner.st.borrow_mut();
            if !st.hosts[host].alive {
                return;
            }
            st.stats.crashes += 1;
            let h = &mut st.hosts[host];
            h.alive = false;
            h.wake_gen += 1;
            h.dht = None;
            let ops = std::mem::take(&mut h.ops);
            (h.coro.take(), ops)
        };
        // drop pending futures of that host (the process is gone)
        for id in ops {
            let fut = self.inner.st.borrow_mut().ops[id].fut.take();
            drop(fut);
        }
        if let Some(mut coro) = coro {
            self.set_acting(Some(host));
            with_quiet(|| {
                let _ = catch_unwind(AssertUnwindSafe(|| {
                    if coro.started() && !coro.done() {
                        coro.force_unwind();
                    }
                }));
            });
            drop(coro);
            self.set_acting(None);
        }
        let socks = self.inner.st.borrow().hosts[host].socks.clone();
        for s in socks {
            self.inner.udp_close(s);
        }
    }

    /// Restart a crashed node on the same address with fresh state (new incarnation,
    /// new entropy stream) and the given bootstrap list.
    pub fn restart(&self, host: HostId, bootstrap: Option<Vec<String>>) {
        {
            let mut st = self.inner.st.borrow_mut();
            assert!(!st.hosts[host].alive);
            st.stats.restarts += 1;
            let seed = st.seed;
            let now = st.now;
            let h = &mut st.hosts[host];
            h.incarnation += 1;
            h.entropy_seed = rng::key(seed, &[rng::tag("entropy"), host as u64, h.incarnation as u64]);
            h.rng_counter = 0;
            h.socks.clear();
            h.last_snapshot = None;
            h.snap_wanted = true;
            h.born_at = now;
            h.steps = 0;
            if let Some(b) = bootstrap {
                h.spec.bootstrap = b;
            }
        }
        self.start_node(host);
    }

    pub fn incarnation(&self, host: HostId) -> u32 {
        self.inner.st.borrow().hosts[host].incarnation
    }

    /// Do not schedule the node for `d` ns (its inbox keeps filling).
    pub fn stall(&self, host: HostId, d: u64) {
        let mut st = self.inner.st.borrow_mut();
        st.stats.stalls += 1;
        let until = st.now + d;
        st.hosts[host].stalled_until = until;
        let gen = st.hosts[host].wake_gen;
        st.push(until, Ev::Wake(host, gen));
    }

    // ---------------------------------------------------------- API calls

    /// Issue an API call on `host` now. `make` receives a clone of the node's handle.
    pub fn call<F, Fut>(&self, host: HostId, label: &str, make: F) -> OpId
    where
        F: FnOnce(AsyncDht) -> Fut,
        Fut: Future<Output = Outcome> + 'static,
    {
        let dht = self.dht(host);
        let id = {
            let mut st = self.inner.st.borrow_mut();
            let id = st.ops.len();
            let now = st.now;
            let issued_step = st.hosts[host].steps;
            st.ops.push(Op {
                id,
                host,
                label: label.to_string(),
                issued_at: now,
                done_at: None,
                issued_step,
                done_step: None,
                outcome: None,
                panicked: None,
                fut: None,
            });
            id
        };
        let Some(dht) = dht else {
            let mut st = self.inner.st.borrow_mut();
            let now = st.now;
            st.ops[id].done_at = Some(now);
            st.ops[id].panicked = Some("node not running".into());
            return id;
        };
        self.set_acting(Some(host));
        let fut = with_quiet(|| catch_unwind(AssertUnwindSafe(|| make(dht))));
        self.set_acting(None);
        match fut {
            Ok(f) => {
                let mut st = self.inner.st.borrow_mut();
                st.ops[id].fut = Some(Box::pin(f));
                st.hosts[host].ops.push(id);
            }
            Err(_) => {
                let mut st = self.inner.st.borrow_mut();
                let now = st.now;
                st.ops[id].done_at = Some(now);
                st.ops[id].panicked = Some(take_panic());
                return id;
            }
        }
        self.poll_ops(host);
        id
    }

    fn poll_ops(&self, host: HostId) {
        let ids: Vec<OpId> = self.inner.st.borrow().hosts[host].ops.clone();
        if ids.is_empty() {
            return;
        }
        let waker = noop_waker();
        let mut cx = Context::from_waker(&waker);
        for id in ids {
            let fut = self.inner.st.borrow_mut().ops[id].fut.take();
            let Some(mut fut) = fut else { continue };
            self.set_acting(Some(host));
            let r = with_quiet(|| catch_unwind(AssertUnwindSafe(|| fut.as_mut().poll(&mut cx))));
            self.set_acting(None);
            let mut st = self.inner.st.borrow_mut();
            let now = st.now;
            match r {
                Ok(Poll::Pending) => {
                    st.ops[id].fut = Some(fut);
                }
                Ok(Poll::Ready(out)) => {
                    st.ops[id].outcome = Some(out);
                    st.ops[id].done_at = Some(now);
                    st.ops[id].done_step = Some(st.hosts[host].steps);
                    st.hosts[host].ops.retain(|x| *x != id);
                    st.mix(&[7, id as u64, now]);
                }
                Err(_) => {
                    st.ops[id].panicked = Some(take_panic());
                    st.ops[id].done_at = Some(now);
                    st.ops[id].done_step = Some(st.hosts[host].steps);
                    st.hosts[host].ops.retain(|x| *x != id);
                    st.mix(&[8, id as u64, now]);
                }
            }
        }
    }

    pub fn with_op<R>(&self, id: OpId, f: impl FnOnce(&Op) -> R) -> R {
        f(&self.inner.st.borrow().ops[id])
    }
    pub fn op_done(&self, id: OpId) -> bool {
        self.inner.st.borrow().ops[id].done()
    }
    pub fn op_count(&self) -> usize {
        self.inner.st.borrow().ops.len()
    }
    pub fn take_outcome(&self, id: OpId) -> Option<Outcome> {
        self.inner.st.borrow_mut().ops[id].outcome.take()
    }
    /// Drop a pending call's future (the caller gives up / is cancelled).
    pub fn cancel_op(&self, id: OpId) {
        let fut = {
            let mut st = self.inner.st.borrow_mut();
            let host = st.ops[id].host;
            st.hosts[host].ops.retain(|x| *x != id);
            st.ops[id].fut.take()
        };
        drop(fut);
    }

    /// Run a blocking (sync API) call on a helper OS thread. Returns once the helper's
    /// ActorMessage has been enqueued, so the schedule stays decided by the simulator.
    pub fn sync_call<R: Send + 'static>(
        &self,
        host: HostId,
        f: impl FnOnce(Dht) -> R + Send + 'static,
    ) -> Option<std::thread::JoinHandle<R>> {
        let dht = self.dht(host)?.as_sync().clone();
        let before = dht.verif_queue_len();
        let probe = dht.clone();
        let handle = std::thread::spawn(move || f(dht));
        let t0 = std::time::Instant::now();
        while probe.verif_queue_len() <= before && !handle.is_finished() {
            std::thread::yield_now();
            if t0.elapsed().as_secs() > 10 {
                break;
            }
        }
        Some(handle)
    }

    // ---------------------------------------------------------- event loop

    /// Process the next event if it is due at or before `limit`. Returns false if none.
    pub fn step_event(&self, limit: u64) -> bool {
        let ev = {
            let mut st = self.inner.st.borrow_mut();
            let Some((&(t, s), _)) = st.events.iter().next() else {
                return false;
            };
            if t > limit {
                return false;
            }
            let ev = st.events.remove(&(t, s)).expect("event");
            st.now = t;
            ev
        };
        match ev {
            Ev::Wake(host, gen) => {
                let go = {
                    let mut st = self.inner.st.borrow_mut();
                    let now = st.now;
                    let h = &mut st.hosts[host];
                    if !h.alive {
                        false
                    } else if h.stalled_until > now {
                        h.deferred_wake = true;
                        false
                    } else if h.wake_gen == gen || h.deferred_wake {
                        h.deferred_wake = false;
                        true
                    } else {
                        false
                    }
                };
                if go {
                    self.inner.st.borrow_mut().mix(&[2, host as u64]);
                    self.step(host);
                }
            }
            Ev::Deliver(id) => self.deliver(id),
            Ev::Call(f) => {
                self.inner.st.borrow_mut().mix(&[3]);
                f(self)
            }
        }
        true
    }

    fn deliver(&self, id: usize) {
        enum Target {
            None,
            Node(HostId),
            Raw(RawId, SocketAddrV4, Rc<[u8]>),
        }
        let target = {
            let mut st = self.inner.st.borrow_mut();
            let now = st.now;
            let (src, dst, bytes) = {
                let d = &st.trace[id];
                (d.src, d.dst, d.bytes.clone())
            };
            st.trace[id].t_deliver = Some(now);
            if st.blocked.contains(&(*src.ip(), *dst.ip())) {
                st.trace[id].fate = Fate::DroppedPartition;
                st.stats.partition_drops += 1;
                Target::None
            } else {
                // NAT inbound translation
                let mut real_dst = dst;
                let mut nat_drop = false;
                for nat in st.nats.iter() {
                    if nat.public_ip == *dst.ip() {
                        match nat.rev.get(&dst.port()) {
                            Some(internal) if nat.allowed.contains(&(dst.port(), *src.ip())) => {
                                real_dst = *internal
                            }
                            _ => nat_drop = true,
                        }
                    }
                }
                if nat_drop {
                    st.trace[id].fate = Fate::DroppedNat;
                    st.stats.nat_drops += 1;
                    Target::None
                } else {
                    match st.addr_map.get(&real_dst) {
                        Some(Endpoint::Sock(s)) => {
                            let s = *s as usize;
                            let host = st.socks[s].host;
                            if st.socks[s].inbox.len() >= st.net.inbox_cap {
                                st.trace[id].fate = Fate::InboxFull;
                                st.stats.inbox_full += 1;
                                Target::None
                            } else {
                                st.socks[s].inbox.push_back((bytes, src, id));
                                st.trace[id].fate = Fate::Delivered;
                                st.trace[id].to_host = Some(host);
                                st.stats.delivered += 1;
                                let lab = (u32::from(*src.ip()) as u64) << 16 | src.port() as u64;
                                st.order_fp = rng::key(st.order_fp, &[host as u64, lab]);
                                st.mix(&[4, id as u64, host as u64]);
                                Target::Node(host)
                            }
                        }
                        Some(Endpoint::Raw(r)) => {
                            let r = *r;
                            st.trace[id].fate = Fate::Delivered;
                            st.stats.delivered += 1;
                            st.mix(&[5, id as u64, r as u64]);
                            Target::Raw(r, src, bytes)
                        }
                        None => {
                            st.trace[id].fate = Fate::NoSuchDest;
                            st.stats.no_dest += 1;
                            Target::None
                        }
                    }
                }
            }
        };
        match target {
            Target::None => {}
            Target::Node(host) => self.step(host),
            Target::Raw(r, from, bytes) => {
                let (handler, me) = {
                    let mut st = self.inner.st.borrow_mut();
                    (st.raws[r].handler.take(), st.raws[r].addr)
                };
                if let Some(mut h) = handler {
                    let mut out = vec![];
                    let now = self.now();
                    {
                        let mut ctx = RawCtx {
                            now,
                            me,
                            out: &mut out,
                        };
                        h(&mut ctx, from, &bytes);
                    }
                    let mut st = self.inner.st.borrow_mut();
                    if st.raws[r].handler.is_none() {
                        st.raws[r].handler = Some(h);
                    }
                    for (delay, src, dst, b) in out {
                        st.transmit(None, src, dst, b.into(), delay);
                    }
                }
            }
        }
    }

    /// Run all events up to and including virtual time `t`, then set the clock to `t`.
    pub fn run_until(&self, t: u64) {
        while self.step_event(t) {}
        let mut st = self.inner.st.borrow_mut();
        if st.now < t {
            st.now = t;
        }
    }
    pub fn run_for(&self, d: u64) {
        let t = self.now() + d;
        self.run_until(t);
    }
    /// Run until `pred` holds (checked after every event) or the deadline passes. Returns pred().
    pub fn run_while(&self, deadline: u64, mut pending: impl FnMut(&Sim) -> bool) -> bool {
        loop {
            if !pending(self) {
                return true;
            }
            if !self.step_event(deadline) {
                let mut st = self.inner.st.borrow_mut();
                if st.now < deadline {
                    st.now = deadline;
                }
                drop(st);
                return !pending(self);
            }
        }
    }
    /// Run until the given ops are all done, or deadline. Returns true if all done.
    pub fn run_ops(&self, ops: &[OpId], deadline: u64) -> bool {
        self.run_while(deadline, |s| ops.iter().any(|o| !s.op_done(*o)))
    }

    pub fn teardown(&self) {
        let n = self.host_count();
        for h in 0..n {
            // drop pending ops first
            let ids: Vec<OpId> = std::mem::take(&mut self.inner.st.borrow_mut().hosts[h].ops);
            for id in ids {
                let fut = self.inner.st.borrow_mut().ops[id].fut.take();
                drop(fut);
            }
            let was_alive = self.alive(h);
            if was_alive {
                self.crash(h);
                self.inner.st.borrow_mut().stats.crashes -= 1;
            }
        }
        self.inner.st.borrow_mut().events.clear();
        *self.inner.observer.borrow_mut() = None;
        let nraws = self.inner.st.borrow().raws.len();
        for r in 0..nraws {
            let h = self.inner.st.borrow_mut().raws[r].handler.take();
            drop(h);
        }
        // outcomes may hold AsyncDht handles / nodes; drop them while the Env is installed
        let ops = std::mem::take(&mut self.inner.st.borrow_mut().ops);
        drop(ops);
        dht::verif::install(None);
    }
}
