//! C09 — only the addressed peer can answer a request, once.
//! A victim performs lookups and puts against scripted genuine peers while a spoofer, who sees
//! each request's (sequential) transaction id, injects responses / errors from a wrong IP, a wrong
//! port or an unrelated address — before, between and after the genuine reply — carrying markers:
//! a marker responder id, marker nodes whose addresses log any contact, a marker `ip` vote,
//! authentic values nobody genuinely holds, and acks. No marker may ever have an effect, the
//! genuine reply must still count afterwards, and duplicates are consumed once.

use std::cell::RefCell;
use std::net::{Ipv4Addr, SocketAddrV4};
use std::rc::Rc;

use serde_json::json;

use crate::bencode::Value;
use crate::krpc::{self, Id, Item, Krpc, MsgOpts};
use crate::props::common::*;
use crate::props::{PropInfo, Property, Report, RunCtx, Tier};
use crate::rawnet::*;
use crate::rng::Rng;
use crate::sim::*;

/// *Asked again* family: peer X is slow to answer the first request it receives (0.55..0.95 s, later than the
/// request timeout) and quick afterwards. While X's first answer is still on its way, the node sends X a second,
/// unrelated request (another API call whose only value holder is X). Each request has its own transaction id:
/// the late answer to the first request is not the answer to the second, and the genuine answer to the second -
/// the value - must be accepted when it arrives.
fn run_asked_again(ctx: &RunCtx) -> Report {
    let mut report = Report::default();
    let mut rng = Rng::new(ctx.seed);
    let net = NetCfg { latency_min_us: 500, latency_max_us: rng.range(2_000, 30_000), ..NetCfg::default() };
    let sim = Sim::new(ctx.seed, net);
    sim.set_snap_mode(SnapMode::Off);
    let rawnet = RawNet::new();
    let n_peers = rng.usize(1, 6);
    // X's ordinary answers take 300..440 ms (in time), its answer to the first call's request 0.7..1 s
    let d2 = rng.range(300, 440) * MS;
    let value = b"held by the slow starter only".to_vec();
    let imm_target = krpc::immutable_target(&value);
    let key = krpc::signing_key(rng.bytes(32).try_into().unwrap());
    let pk = key.verifying_key().to_bytes();
    let item = Item::signed(&key, None, 3, b"mutable, held by the slow starter only");
    let info_hash: Id = rng.id();
    let mut addrs = vec![];
    for i in 0..n_peers {
        let addr = SocketAddrV4::new(priv_ip(40 + i), 6000 + i as u16);
        let mut p = Peer::new(rng.id(), addr);
        p.k = 20;
        p.delay = rng.range(0, 80) * MS;
        if i == 0 {
            p.immutable.insert(imm_target, value.clone());
            p.mutable.insert(item.target(), item.clone());
            p.peers.insert(info_hash, vec![SocketAddrV4::new(priv_ip(900), 9)]);
            // its ordinary answers take 100..400 ms: the late answer to the first request often arrives
            // while the second request is outstanding
            p.delay = d2;
        }
        rawnet.add(&sim, p);
        addrs.push(addr);
    }
    for i in 0..n_peers {
        rawnet.with_peer(i, |p| p.knows = (0..n_peers).collect());
    }
    let mut spec = NodeSpec::new(priv_ip(1), 6881);
    spec.server_mode = rng.chance(1, 3);
    spec.bootstrap = addrs.iter().map(|a| a.to_string()).collect();
    let node = sim.add_node(spec);
    sim.run_for(3 * SEC);
    // X (peer 0) answers the first call's request slowly, everything else at its ordinary pace
    let slow = rng.range(700, 1000) * MS;
    let mut other: Id = rng.id();
    other[0] ^= 0x80;
    {
        let mut slow_used = false;
        rawnet.set_hook(Box::new(move |rctx, sh, idx, from, msg: &Krpc| {
            if idx != 0 || msg.target() != Some(other) || slow_used {
                return HookResult::Default;
            }
            if let Some((_, bytes)) = default_reply(sh, idx, rctx.now, from, msg) {
                slow_used = true;
                let me = rctx.me;
                rctx.send_after(slow, me, from, bytes);
            }
            HookResult::Handled
        }));
    }
    let t0 = sim.now();
    let first = match rng.below(3) {
        0 => sim.find_node(node, other),
        1 => sim.get_peers(node, other),
        _ => sim.get_immutable(node, other),
    };
    // (a datagram wakes the actor at once, so that the call is taken up now and not at its next poll)
    let poker = SocketAddrV4::new(priv_ip(77), 7077);
    let _ = sim.add_raw(poker, None);
    let node_addr = sim.node_addr(node);
    let poke = |sim: &Sim, n: u32| sim.raw_send(poker, node_addr, krpc::query(&krpc::tid_bytes(70_000 + n), "ping", krpc::ping_args(&[7u8; 20]), &MsgOpts::default()));
    poke(&sim, 0);
    sim.run_for(40 * MS);
    // when did the first call's request to X go out?
    let x = addrs[0];
    let t1 = sim.with_trace(|tr| tr.iter().find(|d| d.from_host == Some(node) && d.dst == x && d.t_send >= t0 && Krpc::parse(&d.bytes).map(|k| k.target() == Some(other)).unwrap_or(false)).map(|d| d.t_send)).unwrap_or(t0);
    // the second request to X must go out after the first has timed out (500 ms) and early enough to be
    // outstanding when the first one's late answer arrives, i.e. its own answer (d2 later) comes after that
    let lo = t1 + (500 * MS).max(slow.saturating_sub(d2)) + 15 * MS;
    let hi = t1 + slow - 25 * MS;
    sim.run_until(lo + rng.range(0, hi.saturating_sub(lo) / MS + 1) * MS);
    let kind = rng.below(3);
    let second = match kind {
        0 => sim.get_immutable(node, imm_target),
        1 => sim.get_mutable(node, pk, None, None),
        _ => sim.get_peers(node, info_hash),
    };
    poke(&sim, 1);
    let done = sim.run_ops(&[first, second], sim.now() + 120 * SEC);
    // (whatever is still on its way is delivered: the verdict below asks what X answered, and when)
    sim.run_for(SEC);
    if !done {
        report.violate("hang", "call-did-not-return", "a call of the asked-again family did not return within 120 s".into());
    }
    if let Some(d) = sim.died(node) {
        report.violate("node-died", "node-actor-panicked", format!("node died: {d}"));
    }
    // did X answer the second call's request in time? (it does unless that request was never sent)
    let target2: Id = match kind {
        0 => imm_target,
        1 => item.target(),
        _ => info_hash,
    };
    let (asked, answered_in_time, tids) = sim.with_trace(|tr| {
        let mut sent: Option<(u64, u32)> = None;
        let mut tids: Vec<u32> = vec![];
        let mut ok = false;
        for d in tr.iter() {
            let Some(k) = Krpc::parse(&d.bytes) else { continue };
            if d.from_host == Some(node) && d.dst == x && d.t_send >= t0 && k.is_query() {
                tids.push(k.tid_u32().unwrap_or(0));
                if k.target() == Some(target2) && sent.is_none() {
                    sent = Some((d.t_send, k.tid_u32().unwrap_or(0)));
                }
            }
            if let (Some((ts, tid)), true) = (sent, d.src == x && d.fate == Fate::Delivered && k.is_response()) {
                let has_value = k.body.get("v").is_some() || k.body.get("values").is_some();
                if k.tid_u32() == Some(tid) && has_value && d.t_deliver.unwrap_or(u64::MAX).saturating_sub(ts) < 450 * MS {
                    ok = true;
                }
            }
        }
        (sent.is_some(), ok, tids)
    });
    let got_value = sim.with_op(second, |o| match &o.outcome {
        Some(Outcome::Immutable(v)) => v.is_some(),
        Some(Outcome::Mutable(items)) => !items.is_empty(),
        Some(Outcome::Peers(b)) => b.iter().any(|(_, l)| !l.is_empty()),
        _ => false,
    });
    if ctx.verbose {
        sim.with_trace(|tr| {
            for d in tr.iter().filter(|d| d.t_send >= t0 && (d.src == x || d.dst == x)) {
                println!("  {}", trace_line(d));
            }
        });
        println!("asked={asked} answered_in_time={answered_in_time} got_value={got_value}");
    }
    let what = format!("asked-again family: peers={n_peers} first answer of {x} after {} ms, second call kind {kind}; requests to it carried tids {tids:?}", slow / MS);
    if asked && answered_in_time && !got_value && report.violation.is_none() {
        report.violate("genuine-reply-lost", "genuine-reply-rejected-after-late-reply-to-earlier-request", format!("the second call returned nothing although {x} - the only holder - answered its request with the value within the timeout; {what}"));
    }
    report.nontrivial = asked && answered_in_time;
    report.probe("asked_again_runs", 1);
    if asked && answered_in_time {
        report.probe("asked_again_second_request_answered_in_time", 1);
    }
    report.fingerprint = crate::rng::key(sim.order_fingerprint(), &[kind, n_peers as u64]);
    report.sample = Some(json!({"scenario": what}));
    report.plan_dump = Some(what);
    finish(&sim, report)
}

fn run(ctx: &RunCtx) -> Report {
    if ctx.index % 8 == 7 {
        return run_asked_again(ctx);
    }
    let mut report = Report::default();
    let mut rng = Rng::new(ctx.seed);
    let late_wish = rng.chance(1, 3);
    let net = NetCfg {
        latency_min_us: 500,
        latency_max_us: rng.range(2_000, 80_000),
        dup_ppm: if late_wish {
            rng.range(200_000, 500_000) as u32
        } else if rng.chance(1, 2) {
            rng.range(50_000, 400_000) as u32
        } else {
            0
        },
        ..NetCfg::default()
    };
    let sim = Sim::new(ctx.seed, net.clone());
    sim.set_snap_mode(SnapMode::Every);
    let public = rng.chance(1, 2);
    let rawnet = RawNet::new();
    let n_peers = rng.usize(1, 8);
    let mut addrs = vec![];
    for i in 0..n_peers {
        let ip = if public { pub_ip(&mut rng) } else { priv_ip(40 + i) };
        let addr = SocketAddrV4::new(ip, 6000 + i as u16);
        let id = if public { krpc::bep42_id(ip, rng.id()) } else { rng.id() };
        let mut p = Peer::new(id, addr);
        p.k = 20;
        p.delay = rng.range(0, 200) * MS;
        rawnet.add(&sim, p);
        addrs.push(addr);
    }
    for i in 0..n_peers {
        rawnet.with_peer(i, |p| p.knows = (0..n_peers).collect());
    }
    // garbage contacts (1 run in 3): every peer also tells about addresses the OS refuses to send to
    // (port 0, the broadcast address), so some requests fail in `send_to`
    let garbage = rng.chance(1, 3);
    // objects
    let key = krpc::signing_key(rng.bytes(32).try_into().unwrap());
    let pk = key.verifying_key().to_bytes();
    let value = b"authentic immutable value".to_vec();
    let imm_target = krpc::immutable_target(&value);
    let item = Item::signed(&key, None, 9, b"authentic mutable value");
    let info_hash: Id = rng.id();
    // a target of its own: lookups of different kinds for one target share one query (see C01/C06)
    let mut find_target = imm_target;
    find_target[19] ^= 1;

    // scenario mode
    //  0: nobody genuinely holds anything; spoofs carry authentic data -> nothing may surface
    //  1: exactly one genuine holder; wrong-address spoofs race its reply -> value must surface
    //  2: writes: genuine storers silent, spoofed acks -> put must not be Ok
    //  3: writes: genuine storers ack, spoofed 301/302/203 errors -> put must be Ok
    let mode = rng.below(4);
    let holder = rng.usize(0, n_peers - 1);
    // late repliers (1 in 3 of the read runs): the peers form a chain, so the lookup lives for several
    // rounds, and one or two of them answer only after 0.5..1.6 s - later than the request timeout,
    // while younger requests keep the lookup alive - with duplication on. A late reply may or may not
    // be accepted (not judged); it must never be consumed twice.
    let late = mode <= 1 && n_peers >= 3 && late_wish;
    let mut late_peers: Vec<usize> = vec![];
    if late {
        for i in 0..n_peers {
            rawnet.with_peer(i, |p| {
                p.knows = (i + 1..(i + 3).min(n_peers)).collect();
                p.delay = rng.range(120, 450) * MS;
            });
        }
        late_peers.push(if rng.chance(1, 2) { holder } else { rng.usize(0, n_peers - 1) });
        if rng.chance(1, 3) {
            late_peers.push(rng.usize(0, n_peers - 1));
        }
        for i in &late_peers {
            rawnet.with_peer(*i, |p| p.delay = rng.range(520, 1600) * MS);
        }
        report.probe("late_replier_runs", 1);
    }
    if garbage {
        for i in 0..n_peers {
            let n = rng.usize(1, 3);
            let mut extra = vec![];
            for _ in 0..n {
                let mut id = rng.id();
                if rng.chance(1, 2) {
                    // close to the targets, so that it is among the candidates
                    id[..6].copy_from_slice(&imm_target[..6]);
                }
                let ip = if public { pub_ip(&mut rng) } else { priv_ip(5000 + rng.usize(0, 200)) };
                let addr = if rng.chance(1, 2) { SocketAddrV4::new(ip, 0) } else { SocketAddrV4::new(Ipv4Addr::BROADCAST, rng.range(1024, 60000) as u16) };
                let id = if public && rng.chance(1, 2) { krpc::bep42_id(*addr.ip(), id) } else { id };
                extra.push((id, addr));
            }
            rawnet.with_peer(i, |p| p.extra_nodes = extra);
        }
        report.probe("garbage_contact_runs", 1);
    }
    if mode == 1 {
        rawnet.with_peer(holder, |p| {
            p.immutable.insert(imm_target, value.clone());
            p.mutable.insert(item.target(), item.clone());
            p.peers.insert(info_hash, vec![SocketAddrV4::new(priv_ip(888), 888)]);
        });
    }
    if mode == 2 {
        for i in 0..n_peers {
            rawnet.with_peer(i, |p| p.put_reply = PutReply::Silent);
        }
    }

    // markers
    let marker_id: Id = [0xEE; 20];
    let marker_vote = SocketAddrV4::new(Ipv4Addr::new(6, 6, 6, 6), 6666);
    let marker_peer = SocketAddrV4::new(Ipv4Addr::new(66, 66, 66, 66), 6666);
    let n_markers = 3;
    let mut marker_nodes: Vec<(Id, SocketAddrV4)> = vec![];
    let mut marker_logs = vec![];
    for i in 0..n_markers {
        let ip = if public { pub_ip(&mut rng) } else { priv_ip(3000 + i) };
        let addr = SocketAddrV4::new(ip, 7000 + i as u16);
        let (_, log) = logging_raw(&sim, addr);
        marker_logs.push((addr, log));
        // ids very close to every target used, and BEP42-valid so that they would sort first
        let mut id = if public { krpc::bep42_id(ip, rng.id()) } else { rng.id() };
        if !public {
            id[..10].copy_from_slice(&imm_target[..10]);
        }
        marker_nodes.push((id, addr));
    }

    // victim
    let victim_ip = if public { pub_ip(&mut rng) } else { priv_ip(1) };
    let mut spec = NodeSpec::new(victim_ip, 6881);
    spec.server_mode = rng.chance(1, 3);
    spec.bootstrap = if late {
        let mut b: Vec<usize> = vec![0];
        b.extend(late_peers.iter().copied());
        b.sort();
        b.dedup();
        b.iter().map(|i| addrs[*i].to_string()).collect()
    } else {
        addrs.iter().map(|a| a.to_string()).collect()
    };
    let victim_addr = spec.addr();

    // spoofer: reacts to each request a genuine peer receives from the victim
    let spoof_rate = rng.range(30, 100);
    let spoofs: Rc<RefCell<Vec<String>>> = Default::default();
    let spoof_count = Rc::new(RefCell::new((0u64, 0u64, 0u64))); // (before-ish, after-ish, future-tid)
    report.elements = 1;
    let spoofing = ctx.enabled(0);
    {
        let mut hr = Rng::new(ctx.seed ^ 0x5b00f);
        let spoofs = spoofs.clone();
        let spoof_count = spoof_count.clone();
        let value = value.clone();
        let item = item.clone();
        let marker_nodes = marker_nodes.clone();
        rawnet.set_hook(Box::new(move |rctx, sh, idx, from, msg: &Krpc| {
            if !spoofing || from != victim_addr || hr.below(100) >= spoof_rate {
                return HookResult::Default;
            }
            let g = sh.peers[idx].addr;
            let gdelay = sh.peers[idx].delay;
            let q = msg.query_name().unwrap_or("").to_string();
            let tid = msg.tid_u32().unwrap_or(0);
            let n_spoofs = hr.usize(1, 3);
            for _ in 0..n_spoofs {
                let src = match hr.below(7) {
                    0 | 1 => SocketAddrV4::new(*g.ip(), g.port().wrapping_add(1)),
                    2 | 3 => SocketAddrV4::new(Ipv4Addr::from(u32::from(*g.ip()) ^ 1), g.port()),
                    4 | 5 => SocketAddrV4::new(Ipv4Addr::new(91, 7, hr.below(250) as u8, 1 + hr.below(250) as u8), hr.range(1024, 60000) as u16),
                    // the right address, but a transaction id that is not outstanding
                    _ => g,
                };
                // which tid: the observed one, or a guess at a future one
                let (use_tid, future) = if src == g {
                    // never issued during the run, or long consumed / sent to somebody else: an id below
                    // the current one that this peer never received (ids within 30 of the current one
                    // could still be on their way to it)
                    let mut stale: Option<u32> = None;
                    if tid > 40 && hr.chance(1, 2) {
                        for _ in 0..8 {
                            let c = hr.range(0, (tid - 31) as u64) as u32;
                            if !sh.peers[idx].requests.iter().any(|q| q.from == victim_addr && q.msg.tid_u32() == Some(c)) {
                                stale = Some(c);
                                break;
                            }
                        }
                    }
                    // or an *alias* of the live id: equal to it modulo 2^16 / 2^8 / 2^24, or with a high bit set
                    // (an id comparison on a truncated value would take it for the outstanding request)
                    if stale.is_none() && hr.chance(1, 2) {
                        let alias = match hr.below(6) {
                            0 => tid.wrapping_add(65_536),
                            1 => tid.wrapping_add(65_536 * hr.range(2, 40) as u32),
                            2 => tid ^ 0x0001_0000,
                            3 => tid | 0x8000_0000,
                            4 => tid.wrapping_add(1 << 24),
                            _ => tid.wrapping_add(256),
                        };
                        stale = Some(alias);
                    }
                    (stale.unwrap_or(tid + 500 + hr.range(0, 500) as u32), true)
                } else if hr.chance(3, 4) {
                    (tid, false)
                } else {
                    (tid + hr.range(1, 3) as u32, true)
                };
                // when: racing the genuine reply (its delay is known to the adversary here)
                let delay = match hr.below(3) {
                    0 => 0,
                    1 => gdelay / 2,
                    _ => gdelay + hr.range(0, 200) * MS,
                };
                let opts = MsgOpts {
                    version: Some(krpc::VERSION_RS6.to_vec()),
                    ro: None,
                    ip: Some(marker_vote),
                };
                let t = krpc::tid_bytes(use_tid);
                let is_put = matches!(q.as_str(), "put" | "announce_peer" | "announce_signed_peer");
                let bytes = if is_put {
                    if mode == 3 {
                        krpc::error(&t, *hr.pick(&[301i64, 302, 203]), "spoofed", &opts)
                    } else {
                        krpc::response(&t, Value::dict(vec![("id", Value::bytes(&marker_id))]), &opts)
                    }
                } else {
                    let mut r: Vec<(&str, Value)> = vec![("id", Value::bytes(&marker_id)), ("nodes", Value::Bytes(krpc::compact_nodes(&marker_nodes)))];
                    if q != "find_node" && q != "ping" {
                        r.push(("token", Value::str("spoo")));
                    }
                    match q.as_str() {
                        "get" => {
                            if msg.target() == Some(imm_target) {
                                r.push(("v", Value::bytes(&value)));
                            } else {
                                r.push(("v", Value::bytes(&item.v)));
                                r.push(("k", Value::bytes(&item.k)));
                                r.push(("sig", Value::bytes(&item.sig)));
                                r.push(("seq", Value::Int(item.seq)));
                            }
                        }
                        "get_peers" => r.push(("values", Value::List(vec![Value::Bytes(krpc::compact_addr(&marker_peer))]))),
                        _ => {}
                    }
                    if hr.chance(1, 6) {
                        krpc::error(&t, 201, "spoofed error", &opts)
                    } else {
                        krpc::response(&t, Value::dict(r), &opts)
                    }
                };
                {
                    let mut c = spoof_count.borrow_mut();
                    if future {
                        c.2 += 1;
                    } else if delay <= gdelay {
                        c.0 += 1;
                    } else {
                        c.1 += 1;
                    }
                }
                spoofs.borrow_mut().push(format!("t={:.1}ms spoof {q} tid={use_tid}{} from {src} (genuine {g}, genuine delay {}ms, spoof delay {}ms)", rctx.now as f64 / MS as f64, if future { " (guess)" } else { "" }, gdelay / MS, delay / MS));
                rctx.send_after(delay, src, victim_addr, bytes);
            }
            HookResult::Default
        }));
    }

    // invariant over every snapshot of the victim
    let bad: Rc<RefCell<Option<(String, String)>>> = Default::default();
    {
        let bad = bad.clone();
        let marker_addrs: Vec<SocketAddrV4> = marker_nodes.iter().map(|m| m.1).collect();
        sim.set_observer(Box::new(move |_h, now, s| {
            if bad.borrow().is_some() {
                return;
            }
            for t in [&s.routing_table, &s.signed_peers_routing_table] {
                for (_, b) in &t.buckets {
                    for n in b {
                        if n.id == marker_id || marker_addrs.contains(&n.address) {
                            *bad.borrow_mut() = Some(("marker-in-routing-table".into(), format!("at t={}ms the routing table contains marker {} @ {}", now / MS, krpc::hex(&n.id), n.address)));
                        }
                    }
                }
            }
            if s.public_address == Some(marker_vote) {
                *bad.borrow_mut() = Some(("marker-address-vote".into(), format!("at t={}ms public_address became the spoofed vote {marker_vote}", now / MS)));
            }
        }));
    }
    let victim = sim.add_node(spec);
    sim.run_for(3 * SEC);

    // calls
    let calls: Vec<u64> = match mode {
        0 | 1 => {
            let mut c = vec![0u64, 1, 2, 3];
            rng.shuffle(&mut c);
            c.truncate(rng.usize(1, 4));
            c
        }
        _ => {
            let mut c = vec![4u64, 5, 6];
            rng.shuffle(&mut c);
            c.truncate(rng.usize(1, 3));
            c
        }
    };
    let mut ops = vec![];
    for c in &calls {
        let op = match c {
            0 => sim.get_immutable(victim, imm_target),
            1 => sim.get_mutable(victim, pk, None, None),
            2 => sim.get_peers(victim, info_hash),
            3 => sim.find_node(victim, find_target),
            4 => sim.put_immutable(victim, value.clone()),
            5 => sim.put_mutable(victim, dht::MutableItem::new(&key, b"v", 10, None), None),
            _ => sim.announce_peer(victim, info_hash, Some(5000)),
        };
        ops.push((*c, op));
        if rng.chance(1, 2) {
            sim.run_ops(&[op], sim.now() + 60 * SEC);
        } else {
            sim.run_for(rng.range(0, 400) * MS);
        }
    }
    let ids: Vec<OpId> = ops.iter().map(|o| o.1).collect();
    let done = sim.run_ops(&ids, sim.now() + 120 * SEC);
    sim.run_for(2 * SEC);

    // ---- oracle
    if let Some((key, detail)) = bad.borrow().clone() {
        report.violate("spoof-effect", &key, detail);
    }
    for (addr, log) in &marker_logs {
        if let Some((t, from, _)) = log.borrow().first() {
            report.violate("spoof-effect", "marker-node-contacted", format!("at t={}ms {from} sent a datagram to marker node {addr}, which only spoofed responses mention", t / MS));
        }
    }
    let dup_fired = sim.stats().duplicated;
    // in runs with late repliers the adaptive request timeout may have dropped below any peer's
    // delay, so "the holder's value must surface" is not judged there (only at-most-once and no-effect are)
    let holder_late = late;
    // the lookup may legitimately ask the holder more than once (an address that is both in the
    // bootstrap list and among the candidates): at most one item per answered request
    let (holder_mutable_replies, holder_peers_replies): (usize, usize) = sim.with_trace(|tr| {
        let mut m = std::collections::BTreeSet::new();
        let mut p = std::collections::BTreeSet::new();
        for d in tr.iter().filter(|d| d.src == addrs[holder] && d.dst == victim_addr && d.fate == Fate::Delivered && d.dup_of.is_none()) {
            if let Some(k) = Krpc::parse(&d.bytes) {
                if k.is_response() && k.bytes_field("k").is_some() {
                    m.insert(k.tid_u32());
                }
                if k.is_response() && k.body.get("values").is_some() {
                    p.insert(k.tid_u32());
                }
            }
        }
        (m.len(), p.len())
    });
    for (c, id) in &ops {
        if let Some(p) = sim.with_op(*id, |o| o.panicked.clone()) {
            report.violate("api-panic", "api-call-panicked", format!("call {c} panicked: {p}"));
            continue;
        }
        match sim.take_outcome(*id) {
            Some(Outcome::Immutable(v)) => match mode {
                0 if v.is_some() => report.violate("spoof-effect", "spoofed-value-surfaced", "get_immutable returned a value that only spoofed responses carried".into()),
                1 if v.is_none() && !holder_late => report.violate("genuine-reply-lost", "genuine-reply-rejected-after-spoof", format!("get_immutable returned None although genuine peer {} holds the value and answered; spoofs: {:?}", addrs[holder], spoofs.borrow().iter().rev().take(4).collect::<Vec<_>>())),
                _ => {}
            },
            Some(Outcome::Mutable(items)) => match mode {
                0 if !items.is_empty() => report.violate("spoof-effect", "spoofed-value-surfaced", "get_mutable yielded an item that only spoofed responses carried".into()),
                1 => {
                    if items.is_empty() && holder_late {
                    } else if items.is_empty() {
                        report.violate("genuine-reply-lost", "genuine-reply-rejected-after-spoof", format!("get_mutable yielded nothing although genuine peer {} holds the item and answered", addrs[holder]));
                    } else if items.len() > holder_mutable_replies.max(1) {
                        report.violate("exactly-once", "reply-consumed-twice", format!("get_mutable yielded {} items but the only genuine holder answered {holder_mutable_replies} request(s) with the item (duplicated datagrams in this run: {dup_fired})", items.len()));
                    }
                }
                _ => {}
            },
            Some(Outcome::Peers(batches)) => {
                if batches.iter().any(|b| b.1.contains(&marker_peer)) {
                    report.violate("spoof-effect", "spoofed-value-surfaced", "get_peers yielded the marker peer that only spoofed responses carried".into());
                }
                if mode == 1 {
                    if batches.is_empty() && holder_late {
                    } else if batches.is_empty() {
                        report.violate("genuine-reply-lost", "genuine-reply-rejected-after-spoof", format!("get_peers yielded nothing although genuine peer {} holds a peer and answered", addrs[holder]));
                    } else if batches.len() > holder_peers_replies.max(1) {
                        report.violate("exactly-once", "reply-consumed-twice", format!("get_peers yielded {} batches but the only genuine holder answered {holder_peers_replies} request(s) with values", batches.len()));
                    }
                }
            }
            Some(Outcome::Nodes(nodes)) => {
                if nodes.iter().any(|n| n.id().as_bytes() == &marker_id || marker_nodes.iter().any(|m| m.1 == n.address())) {
                    report.violate("spoof-effect", "marker-node-returned", "find_node returned a node that only spoofed responses mention".into());
                }
            }
            Some(Outcome::PutImmutable(r)) => {
                if mode == 2 && r.is_ok() {
                    report.violate("spoof-effect", "spoofed-ack-counted", "put_immutable returned Ok although every genuine storer stayed silent; only spoofed acks arrived".into());
                }
                if mode == 3 && r.is_err() {
                    report.violate("genuine-reply-lost", "genuine-ack-lost-after-spoof", format!("put_immutable failed ({r:?}) although every genuine storer acknowledged; spoofed errors were injected"));
                }
            }
            Some(Outcome::PutMutable(r)) => {
                if mode == 2 && r.is_ok() {
                    report.violate("spoof-effect", "spoofed-ack-counted", "put_mutable returned Ok although every genuine storer stayed silent".into());
                }
                if mode == 3 && r.is_err() {
                    report.violate("genuine-reply-lost", "genuine-ack-lost-after-spoof", format!("put_mutable failed ({r:?}) although every genuine storer acknowledged"));
                }
            }
            Some(Outcome::Announce(r)) => {
                if mode == 2 && r.is_ok() {
                    report.violate("spoof-effect", "spoofed-ack-counted", "announce_peer returned Ok although every genuine storer stayed silent".into());
                }
                if mode == 3 && r.is_err() {
                    report.violate("genuine-reply-lost", "genuine-ack-lost-after-spoof", format!("announce_peer failed ({r:?}) although every genuine storer acknowledged"));
                }
            }
            _ => {}
        }
    }
    if let Some(d) = sim.died(victim) {
        report.violate("node-died", "victim-actor-panicked", format!("victim died: {d}"));
    } else if !done {
        report.violate("hang", "call-did-not-finish", "a call did not finish within 120 s".into());
    }
    let c = *spoof_count.borrow();
    report.probe("spoofs_racing_before_genuine_reply", c.0);
    report.probe("spoofs_after_genuine_reply", c.1);
    report.probe("spoofs_guessed_future_tid", c.2);
    report.probe(&format!("mode_{mode}"), 1);
    report.nontrivial = c.0 + c.1 > 0;
    let plan = format!(
        "mode={mode} victim={victim_addr} server_mode={} peers={:?} holder={holder} calls={calls:?} dup_ppm={} spoof_rate={spoof_rate}% spoofing={spoofing}\n{}",
        sim.node_spec(victim).server_mode,
        addrs,
        net.dup_ppm,
        spoofs.borrow().join("\n")
    );
    report.sample = Some(json!({"mode": mode, "calls": calls, "spoofs": spoofs.borrow().iter().take(5).collect::<Vec<_>>()}));
    report.plan_dump = Some(plan);
    finish(&sim, report)
}

pub fn property() -> Property {
    Property {
        id: "C09",
        run,
        budget: |t| match t {
            Tier::Quick => 12000,
            Tier::Thorough => 500_000,
        },
        wall_cap_s: |t| match t {
            Tier::Quick => 60.0,
            Tier::Thorough => 1500.0,
        },
        info: || PropInfo {
            floors: vec![],
            rule: "one run = a victim (client/server, private/public plan) with 1..8 scripted genuine peers (response delays 0..200 ms) and a spoofer that sees each request's tid and injects 1..3 responses/errors per request from wrong port / adjacent IP / unrelated address, with the observed or a guessed future tid, timed before, between or after the genuine reply; four modes (nobody holds data + spoofs carry authentic data; single genuine holder racing spoofs; silent storers + spoofed acks; acking storers + spoofed errors); duplication of genuine replies on. Non-trivial = at least one spoof with a live tid was injected; distinct = delivery-order hash at the victim".into(),
            assumptions: vec!["late genuine replies (after timeout, before GC) are accepted by design and not judged".into()],
        },
    }
}
