//! Shared scenario helpers.

use std::cell::RefCell;
use std::net::{Ipv4Addr, SocketAddrV4};
use std::rc::Rc;

use crate::krpc::{self, Krpc};
use crate::props::Report;
use crate::rng::Rng;
use crate::sim::{Dgram, RawId, Sim, MS};

/// Finish a run: copy statistics, hashes, and tear the simulation down.
pub fn finish(sim: &Sim, mut r: Report) -> Report {
    r.absorb_stats(&sim.stats());
    r.det_hash = sim.fingerprint();
    if r.fingerprint == 0 {
        r.fingerprint = sim.order_fingerprint();
    }
    r.sim_time_ns = sim.now();
    if r.violation.is_some() && r.trace_tail.is_empty() {
        r.trace_tail = trace_tail(sim, 40);
    }
    // debug aid (`mlsim one ...` only): MLSIM_DUMP_TRACE=<substring> prints the matching trace lines
    if let Ok(pat) = std::env::var("MLSIM_DUMP_TRACE") {
        sim.with_trace(|t| {
            for d in t.iter() {
                let l = trace_line(d);
                if l.contains(&pat) {
                    println!("{l}");
                }
            }
        });
    }
    sim.teardown();
    r
}

pub fn priv_ip(i: usize) -> Ipv4Addr {
    let i = i + 1;
    Ipv4Addr::new(10, (i >> 16) as u8, (i >> 8) as u8, i as u8)
}

/// A routable (non-exempt for BEP42) address.
pub fn pub_ip(rng: &mut Rng) -> Ipv4Addr {
    // 1 in 10: an address right next to, or easily mistaken for, an exempt range - carrier-grade NAT
    // (100.64/10), the neighbours of the private / link-local / loopback blocks, documentation and
    // benchmarking ranges. BEP42 exempts private, link-local and loopback addresses only.
    if rng.chance(1, 10) {
        let (a, b) = *rng.pick(&[(100u8, 64u8), (100, 100), (100, 127), (172, 15), (172, 32), (192, 167), (192, 169), (169, 253), (169, 255), (11, 0), (9, 255), (126, 255), (128, 0), (192, 0), (198, 18), (198, 51), (203, 0)]);
        return Ipv4Addr::new(a, b, rng.below(256) as u8, rng.range(1, 254) as u8);
    }
    loop {
        let a = rng.range(11, 223) as u8;
        let b = rng.below(256) as u8;
        let c = rng.below(256) as u8;
        let d = rng.range(1, 254) as u8;
        let ip = Ipv4Addr::new(a, b, c, d);
        if a == 127 || krpc::bep42_exempt(ip) || (a == 100 && (64..128).contains(&b)) || a == 192 || a == 198 || a == 203 {
            continue;
        }
        return ip;
    }
}

pub type RawLog = Rc<RefCell<Vec<(u64, SocketAddrV4, Vec<u8>)>>>;

/// A raw endpoint that records everything it receives and never answers.
pub fn logging_raw(sim: &Sim, addr: SocketAddrV4) -> (RawId, RawLog) {
    let log: RawLog = Rc::new(RefCell::new(vec![]));
    let l2 = log.clone();
    let id = sim.add_raw(
        addr,
        Some(Box::new(move |ctx, from, bytes| {
            l2.borrow_mut().push((ctx.now, from, bytes.to_vec()));
        })),
    );
    (id, log)
}

pub fn trace_line(d: &Dgram) -> String {
    let label = Krpc::parse(&d.bytes)
        .map(|k| {
            let mut s = k.label();
            if let Some(t) = k.tid_u32() {
                s.push_str(&format!(" tid={t}"));
            }
            if let Some(t) = k.target() {
                s.push_str(&format!(" target={}", &krpc::hex(&t)[..8]));
            }
            s
        })
        .unwrap_or_else(|| format!("<undecodable {} bytes>", d.bytes.len()));
    format!(
        "#{} t={:.3}ms {} -> {} {} [{:?}{}{}]",
        d.id,
        d.t_send as f64 / MS as f64,
        d.src,
        d.dst,
        label,
        d.fate,
        if d.dup_of.is_some() { " dup" } else { "" },
        if d.corrupted { " corrupted" } else { "" },
    )
}

pub fn trace_tail(sim: &Sim, n: usize) -> Vec<String> {
    sim.with_trace(|t| {
        let start = t.len().saturating_sub(n);
        t[start..].iter().map(trace_line).collect()
    })
}

pub fn hex8(id: &[u8]) -> String {
    krpc::hex(&id[..4.min(id.len())])
}
