//! C08 — put results tell the truth about acknowledgements.
//! A real writer stores to scripted storers (ack / error code / silence per plan, seeded delays)
//! and real servers, under loss and duplication. The verdict is computed from the datagram trace:
//! which acks / 3xx errors for *this* put reached the writer in time, which addresses were written
//! to and with which token.

use std::collections::{BTreeMap, BTreeSet};
use std::net::SocketAddrV4;

use dht::errors::{ConcurrencyError, PutError, PutMutableError, PutQueryError};
use dht::verif_exports::{PutImmutableRequestArguments, PutMutableRequestArguments};
use dht::PutRequestSpecific;
use serde_json::json;

use crate::krpc::{self, Id, Krpc, MsgOpts};
use crate::props::common::*;
use crate::props::{PropInfo, Property, Report, RunCtx, Tier};
use crate::rawnet::*;
use crate::rng::Rng;
use crate::sim::*;

#[derive(Debug, Clone, PartialEq)]
enum Res {
    Ok,
    Cas,
    NotMostRecent,
    ConflictRisk,
    Query(String),
}

fn classify_put_error(e: &PutError) -> Res {
    match e {
        PutError::Query(q) => Res::Query(format!("{q:?}")),
        PutError::Concurrency(ConcurrencyError::CasFailed) => Res::Cas,
        PutError::Concurrency(ConcurrencyError::NotMostRecent) => Res::NotMostRecent,
        PutError::Concurrency(ConcurrencyError::ConflictRisk) => Res::ConflictRisk,
    }
}

fn run(ctx: &RunCtx) -> Report {
    let mut report = Report::default();
    let mut rng = Rng::new(ctx.seed);
    let big = match ctx.tier {
        Tier::Quick => rng.chance(1, 60),
        Tier::Thorough => rng.chance(1, 25),
    };
    let huge = big && ctx.tier == Tier::Thorough && rng.chance(1, 4);
    // 1 run in 8 (own random stream): *very slow links* - a third to a half of all datagrams take 0.6..3 s longer.
    // The writer's request timeout adapts (late answers raise it to seconds); acknowledgements that arrive after
    // 2 s but within the timeout the node itself reports are in time. Judged with the timeout series recorded
    // from the writer's snapshots.
    let mut vrng = Rng::new(crate::rng::key(ctx.seed, &[crate::rng::tag("c08-very-slow")]));
    let very_slow = !big && vrng.chance(1, 8);
    let net = NetCfg {
        latency_min_us: 500,
        latency_max_us: rng.range(2_000, 60_000),
        drop_ppm: if !big && rng.chance(1, 2) { rng.range(20_000, 300_000) as u32 } else { 0 },
        dup_ppm: if !big && rng.chance(1, 3) { rng.range(20_000, 200_000) as u32 } else { 0 },
        slow_ppm: if !big && rng.chance(1, 4) { rng.range(20_000, 200_000) as u32 } else { 0 },
        slow_extra_ms: (300, 1500),
        ..NetCfg::default()
    };
    let net = if very_slow { NetCfg { drop_ppm: 0, dup_ppm: 0, slow_ppm: vrng.range(300_000, 550_000) as u32, slow_extra_ms: (600, 3000), ..net } } else { net };
    let sim = Sim::new(ctx.seed, net.clone());
    sim.set_snap_mode(if very_slow { SnapMode::Every } else { SnapMode::Off });
    // Fault point (own random stream): in two of three very-slow runs every node compacts its in-flight list on
    // every poll, not only when the vector happens to be exactly full (hook verif::set_force_compaction; reset when
    // the Env is removed). Compaction may only drop requests older than four timeouts, so nothing observable changes
    // on a correct tree; a retention shorter than the timeout makes in-time acknowledgements "unexpected".
    if very_slow && Rng::new(crate::rng::key(ctx.seed, &[crate::rng::tag("c08-force-compact")])).chance(2, 3) {
        dht::verif::set_force_compaction(true);
        report.probe("very_slow_runs_with_forced_compaction", 1);
    }
    // (time, request timeout the writer reported) - filled in very-slow runs
    let timeouts: std::rc::Rc<std::cell::RefCell<Vec<(u64, u64)>>> = Default::default();
    let writer_cell: std::rc::Rc<std::cell::RefCell<Option<HostId>>> = Default::default();
    if very_slow {
        let (ts, wc) = (timeouts.clone(), writer_cell.clone());
        sim.set_observer(Box::new(move |h, now, snap| {
            if Some(h) == *wc.borrow() {
                ts.borrow_mut().push((now, snap.socket.request_timeout_ns));
            }
        }));
        report.probe("very_slow_link_runs", 1);
    }
    let rawnet = RawNet::new();
    let n_raw = if huge { 640 } else if big { 330 } else { rng.usize(1, 12) };
    let n_real = if big { 0 } else { rng.usize(0, 2) };
    report.elements = if big { 0 } else { n_raw };
    let mut addrs = vec![];
    // per-storer plan
    let plan_mode = rng.below(6);
    let mut plans: Vec<PutReply> = vec![];
    for i in 0..n_raw {
        let addr = SocketAddrV4::new(priv_ip(50 + i), 6881);
        let mut p = Peer::new(rng.id(), addr);
        p.k = 20;
        p.token = vec![b'T', (i >> 8) as u8, i as u8, rng.below(256) as u8];
        p.delay = rng.range(0, 300) * MS;
        let reply = if big {
            PutReply::Silent
        } else {
            match plan_mode {
                0 => PutReply::Ack,
                1 => PutReply::Silent,
                2 => rng.pick(&[PutReply::Ack, PutReply::Ack, PutReply::Silent, PutReply::Error(203), PutReply::Error(205), PutReply::Error(301), PutReply::Error(302), PutReply::Error(999)]).clone(),
                3 => if rng.chance(3, 4) { PutReply::Error(301) } else { PutReply::Ack },
                4 => if rng.chance(3, 4) { PutReply::Error(302) } else { PutReply::Silent },
                _ => if rng.chance(1, 2) { PutReply::Error(*rng.pick(&[203i64, 205, 206, 207])) } else { PutReply::Silent },
            }
        };
        let reply = if !big && !ctx.enabled(i) { PutReply::Ack } else { reply };
        p.put_reply = reply.clone();
        plans.push(reply);
        rawnet.add(&sim, p);
        addrs.push(addr);
    }
    // 1 run in 6 (own random stream): some (or all) storers answer lookups normally but flag their replies to
    // WRITES read-only (a node that dropped to client mode in between): such a reply counts for nothing -
    // neither as an acknowledgement nor as an error
    let mut rorng = Rng::new(crate::rng::key(ctx.seed, &[crate::rng::tag("c08-ro-acks")]));
    if !big && rorng.chance(1, 6) {
        let all = rorng.chance(1, 2);
        let mut n_ro = 0u64;
        for i in 0..n_raw {
            if all || rorng.chance(1, 2) {
                rawnet.with_peer(i, |p| p.ro_put = true);
                n_ro += 1;
            }
        }
        report.probe("runs_with_read_only_flagged_write_replies", 1);
        report.probe("storers_flagging_write_replies_read_only", n_ro);
    }
    let know_all: Vec<usize> = (0..n_raw).collect();
    for i in 0..n_raw {
        rawnet.with_peer(i, |p| p.knows = know_all.clone());
    }
    // real servers among the storers
    let mut reals = vec![];
    for j in 0..n_real {
        let mut s = NodeSpec::new(priv_ip(10 + j), 6881).server();
        s.bootstrap = addrs.iter().take(3).map(|a| a.to_string()).collect();
        let h = sim.add_node(s);
        reals.push(h);
        addrs.push(sim.node_addr(h));
    }
    // writer
    let mut wspec = NodeSpec::new(priv_ip(1), 6881);
    wspec.server_mode = rng.chance(1, 3);
    wspec.bootstrap = addrs.iter().map(|a| a.to_string()).take(8).collect();
    let writer = sim.add_node(wspec);
    *writer_cell.borrow_mut() = Some(writer);
    let writer_addr = sim.node_addr(writer);
    sim.run_for(4 * SEC);
    if very_slow {
        // some lookups first: their late answers teach the writer the round trips of these links
        for _ in 0..vrng.usize(3, 8) {
            let o = sim.get_closest_nodes(writer, vrng.id());
            sim.run_ops(&[o], sim.now() + 120 * SEC);
        }
    }

    // the write
    let key = krpc::signing_key(rng.bytes(32).try_into().unwrap());
    let kind = if big { if huge { 1 } else { rng.below(2) } } else { rng.below(4) };
    let value = rng.bytes(30);
    let info_hash: Id = rng.id();
    let item = dht::MutableItem::new(&key, &value, 4, None);
    let target: Id = match kind {
        0 => krpc::immutable_target(&value),
        1 => *item.target().as_bytes(),
        _ => info_hash,
    };
    // mutable puts with real servers among the storers, 1 in 3 (own random stream): the key already holds an
    // item with the SAME seq and another value (a second device, a corrected record that did not bump seq),
    // written and completed a moment ago. An Ok for the new item means some acknowledging node serves the new
    // item (the read-back below).
    let mut srng = Rng::new(crate::rng::key(ctx.seed, &[crate::rng::tag("c08-same-seq")]));
    if !big && kind == 1 && n_real > 0 && srng.chance(1, 3) {
        let earlier = dht::MutableItem::new(&key, b"an earlier value with the same seq", 4, None);
        let o = sim.put_mutable(writer, earlier, None);
        sim.run_ops(&[o], sim.now() + 120 * SEC);
        // (long enough for every delayed or duplicated copy of the earlier write to have landed: with equal seqs the
        // last copy to arrive wins at a storing node)
        sim.run_for(srng.range(4000, 7000) * MS);
        report.probe("same_seq_other_value_written_before", 1);
    }
    let mut extra_addrs: BTreeSet<SocketAddrV4> = BTreeSet::new();
    let mut ack_target = 0usize;
    // two further families, drawn from a random stream of their own:
    // (1) token-bearing extra nodes for a mutable put (1 mutable run in 3): the 3xx majority is a majority
    //     of ALL store requests, closest and extra;
    // (2) cached put + empty-handed lookup (1 run in 5): the put's target was written a moment ago, so the
    //     put starts from the cached closest nodes at once, while a lookup of the same target that was issued
    //     just before it comes back without a single token (the peers answer it with 204 / without a token /
    //     not at all) in the middle of the put's store phase.
    let mut frng = Rng::new(crate::rng::key(ctx.seed, &[crate::rng::tag("c08-families")]));
    let token_extras = !big && kind == 1 && frng.chance(1, 3);
    let cached_overlap = !big && !token_extras && frng.chance(1, 5);
    let mut t_put_floor = 0u64;
    let op = if big {
        // gather > 255 token-bearing nodes from other regions of the id space
        let mut extra: Vec<dht::Node> = vec![];
        let want = if huge { 600 } else { 300 };
        let mut tries = 0;
        while extra.len() < want && tries < 200 {
            tries += 1;
            let t = rng.id();
            let o = sim.get_closest_nodes(writer, t);
            sim.run_ops(&[o], sim.now() + 30 * SEC);
            if let Some(Outcome::Nodes(ns)) = sim.take_outcome(o) {
                for n in ns.iter() {
                    if n.token().is_some() && extra_addrs.insert(n.address()) {
                        extra.push(n.clone());
                    }
                }
            }
        }
        extra.truncate(want);
        extra_addrs = extra.iter().map(|n| n.address()).collect();
        // exactly this many of the extra nodes acknowledge (the interesting numbers are around 2^8)
        ack_target = *rng.pick(&[255usize, 256, 256, 257, 256, 512, 300, 511, 513]);
        ack_target = ack_target.min(extra.len());
        let ackers: Vec<SocketAddrV4> = extra.iter().take(ack_target).map(|n| n.address()).collect();
        let one_301 = huge || rng.chance(1, 2);
        for i in 0..n_raw {
            let a = rawnet.contact(i).1;
            let r = if ackers.contains(&a) { PutReply::Ack } else { PutReply::Silent };
            rawnet.with_peer(i, |p| p.put_reply = r);
        }
        if one_301 && kind == 1 {
            // a single storer (not an acker) answers 301: far from a majority
            if let Some(n) = extra.iter().skip(ack_target).next() {
                let a = n.address();
                for i in 0..n_raw {
                    if rawnet.contact(i).1 == a {
                        rawnet.with_peer(i, |p| p.put_reply = PutReply::Error(301));
                    }
                }
            }
        }
        report.probe("big_extra_nodes", extra.len() as u64);
        let request = if kind == 0 {
            PutRequestSpecific::PutImmutable(PutImmutableRequestArguments {
                target: crate::api::id(&target),
                v: value.clone().into_boxed_slice(),
            })
        } else {
            PutRequestSpecific::PutMutable(PutMutableRequestArguments::from(item.clone(), None))
        };
        let extra_box: Box<[dht::Node]> = extra.into_boxed_slice();
        sim.call(writer, "put+extra", move |d| async move { Outcome::Put(d.put(request, Some(extra_box)).await) })
    } else if kind <= 1 && rng.chance(1, 5) {
        // extra nodes that never gave a write token (the result of a find_node): they must be skipped
        let o = sim.find_node(writer, if rng.chance(1, 2) { rng.id() } else { target });
        sim.run_ops(&[o], sim.now() + 30 * SEC);
        let mut extra: Vec<dht::Node> = vec![];
        if let Some(Outcome::Nodes(ns)) = sim.take_outcome(o) {
            extra = ns.iter().filter(|n| n.token().is_none()).cloned().collect();
        }
        report.probe("tokenless_extra_nodes", extra.len() as u64);
        let request = if kind == 0 {
            PutRequestSpecific::PutImmutable(PutImmutableRequestArguments {
                target: crate::api::id(&target),
                v: value.clone().into_boxed_slice(),
            })
        } else {
            PutRequestSpecific::PutMutable(PutMutableRequestArguments::from(item.clone(), None))
        };
        let extra_box: Box<[dht::Node]> = extra.into_boxed_slice();
        sim.call(writer, "put+tokenless-extra", move |d| async move { Outcome::Put(d.put(request, Some(extra_box)).await) })
    } else if token_extras {
        // token-bearing extra nodes: what get_closest_nodes returned for the target or another id (every
        // storer knows every other, so these are the storers themselves, each with its token); the extras
        // are the planned ackers among them (or a random subset), possibly several times over
        let o = sim.get_closest_nodes(writer, if frng.chance(1, 2) { frng.id() } else { target });
        sim.run_ops(&[o], sim.now() + 30 * SEC);
        let mut extra: Vec<dht::Node> = vec![];
        if let Some(Outcome::Nodes(ns)) = sim.take_outcome(o) {
            let only_ackers = frng.chance(2, 3);
            for n in ns.iter().filter(|n| n.token().is_some()) {
                let planned_ack = (0..n_raw).any(|i| rawnet.contact(i).1 == n.address() && plans[i] == PutReply::Ack) || !addrs[..n_raw].contains(&n.address());
                if if only_ackers { planned_ack } else { frng.chance(1, 2) } {
                    for _ in 0..frng.usize(1, 3) {
                        extra.push(n.clone());
                    }
                }
            }
        }
        report.probe("token_bearing_extra_nodes", extra.len() as u64);
        report.probe("runs_with_token_bearing_extra_nodes", 1);
        let request = PutRequestSpecific::PutMutable(PutMutableRequestArguments::from(item.clone(), None));
        let extra_box: Box<[dht::Node]> = extra.into_boxed_slice();
        sim.call(writer, "put+token-extra", move |d| async move { Outcome::Put(d.put(request, Some(extra_box)).await) })
    } else {
        let signer: [u8; 32] = rng.bytes(32).try_into().unwrap();
        let issue = |sim: &Sim| match kind {
            0 => sim.put_immutable(writer, value.clone()),
            1 => sim.put_mutable(writer, item.clone(), None),
            2 => sim.announce_peer(writer, info_hash, Some(4000)),
            _ => sim.announce_signed_peer(writer, info_hash, signer),
        };
        if cached_overlap {
            // warm-up: the same write, completed (its lookup result is cached for five minutes)
            let w = issue(&sim);
            sim.run_ops(&[w], sim.now() + 120 * SEC);
            let _ = sim.take_outcome(w);
            // from now on the storers leave lookups of this target empty-handed, but still answer writes
            let t_switch = sim.now();
            let mode = frng.below(3);
            rawnet.set_hook(Box::new(move |rctx, sh, idx, from, msg: &Krpc| {
                let lookup = matches!(msg.query_name(), Some("get") | Some("get_peers") | Some("get_signed_peers") | Some("find_node"));
                if !lookup || rctx.now < t_switch || msg.target() != Some(target) {
                    return HookResult::Default;
                }
                let opts = opts_for(&sh.peers[idx], from);
                let me = rctx.me;
                match mode {
                    0 => rctx.send_after(0, me, from, krpc::error(&msg.tid, 204, "Method Unknown", &opts)),
                    1 => {}
                    _ => {
                        // an answer without a token (and without nodes)
                        let id = sh.peers[idx].id;
                        rctx.send_after(0, me, from, krpc::response(&msg.tid, crate::bencode::Value::dict(vec![("id", crate::bencode::Value::bytes(&id))]), &opts));
                    }
                }
                HookResult::Handled
            }));
            let pk = key.verifying_key().to_bytes();
            let l = match (kind, frng.below(2)) {
                (0, _) => sim.get_immutable(writer, target),
                (1, _) => sim.get_mutable(writer, pk, None, None),
                (_, 0) => sim.get_peers(writer, info_hash),
                _ => sim.get_signed_peers(writer, info_hash),
            };
            let _ = l;
            let delta = match frng.below(4) {
                0 => 0,
                1 => frng.range(1, 50) * MS,
                2 => frng.range(50, 250) * MS,
                _ => frng.range(250, 480) * MS,
            };
            sim.run_for(delta);
            t_put_floor = sim.now();
            report.probe("cached_put_with_empty_handed_lookup_runs", 1);
        }
        issue(&sim)
    };
    let t_put = sim.with_op(op, |o| o.issued_at).max(t_put_floor);
    // 1 announce_peer run in 3: a second announce_peer for the same info hash with ANOTHER port is
    // issued while the first is in flight. Whatever happens to the first call (it may be superseded:
    // puts are keyed by target, see the open finding of C01), the second one is a put of its own:
    // Ok only if a store request carrying its own port was acknowledged.
    let overlap = kind == 2 && !big && rng.chance(1, 3);
    let mut op2: Option<OpId> = None;
    if overlap {
        let delta = match rng.below(4) {
            0 => 0,
            1 => rng.range(1, 120) * MS,
            2 => rng.range(120, 700) * MS,
            _ => rng.range(700, 2500) * MS,
        };
        sim.run_for(delta);
        op2 = Some(sim.announce_peer(writer, info_hash, Some(4001)));
        report.probe("overlapping_announce_other_port", 1);
    }
    let done = sim.run_ops(&[op], sim.now() + 180 * SEC);
    if let Some(o2) = op2 {
        let done2 = sim.run_ops(&[o2], sim.now() + 180 * SEC);
        let t_done2 = sim.with_op(o2, |o| o.done_at).unwrap_or(sim.now());
        let r2 = sim.take_outcome(o2);
        if !done2 {
            report.violate("hang", "second-announce-did-not-return", "the overlapping announce_peer (other port) did not return within 180 s".into());
        } else if let Some(Outcome::Announce(r2)) = r2 {
            // store requests that carry the second call's port, and the first copy of their replies
            let (own_stores, own_acks, own_acks_in_time) = sim.with_trace(|tr| {
                let mut own: Vec<(SocketAddrV4, u32, u64)> = vec![];
                for d in tr.iter().filter(|d| d.from_host == Some(writer) && d.dup_of.is_none()) {
                    if let Some(k) = Krpc::parse(&d.bytes) {
                        if k.query_name() == Some("announce_peer") && k.target() == Some(target) && k.int_field("port") == Some(4001) {
                            own.push((d.dst, k.tid_u32().unwrap_or(0), d.t_send));
                        }
                    }
                }
                let (mut acks, mut in_time) = (0usize, 0usize);
                let mut counted: BTreeSet<(SocketAddrV4, u32)> = BTreeSet::new();
                for d in tr.iter().filter(|d| d.dst == writer_addr && d.fate == Fate::Delivered) {
                    let Some(k) = Krpc::parse(&d.bytes) else { continue };
                    if !k.is_response() || k.ro {
                        continue;
                    }
                    if let Some(s) = own.iter().find(|s| s.0 == d.src && Some(s.1) == k.tid_u32()) {
                        if counted.insert((s.0, s.1)) && d.t_deliver.unwrap() <= t_done2 {
                            acks += 1;
                            if d.t_deliver.unwrap().saturating_sub(s.2) < 500 * MS {
                                in_time += 1;
                            }
                        }
                    }
                }
                (own.len(), acks, in_time)
            });
            match r2 {
                Ok(_) if own_stores == 0 => report.violate("false-ok", "ok-without-own-store-request", "the second announce_peer (port 4001) returned Ok although no store request carrying its port was ever sent: nobody holds that announcement".into()),
                Ok(_) if own_acks == 0 => report.violate("false-ok", "ok-without-own-ack", format!("the second announce_peer (port 4001) returned Ok although none of its {own_stores} store requests was acknowledged before it returned")),
                Err(e) if own_acks_in_time >= 1 => report.violate("false-error", "error-despite-own-ack", format!("the second announce_peer (port 4001) returned {e:?} although {own_acks_in_time} of its store requests were acknowledged in time")),
                _ => {}
            }
            report.probe("overlapping_announce_judged", 1);
        }
    }
    let t_done = sim.with_op(op, |o| o.done_at).unwrap_or(sim.now());
    let panicked = sim.with_op(op, |o| o.panicked.clone());
    let result: Option<Res> = match sim.take_outcome(op) {
        Some(Outcome::PutImmutable(r)) | Some(Outcome::Announce(r)) => Some(match r {
            Ok(_) => Res::Ok,
            Err(e) => Res::Query(format!("{e:?}")),
        }),
        Some(Outcome::PutMutable(r)) => Some(match r {
            Ok(_) => Res::Ok,
            Err(PutMutableError::Query(q)) => Res::Query(format!("{q:?}")),
            Err(PutMutableError::Concurrency(c)) => classify_put_error(&PutError::Concurrency(c)),
        }),
        Some(Outcome::Put(r)) => Some(match r {
            Ok(_) => Res::Ok,
            Err(e) => classify_put_error(&e),
        }),
        _ => None,
    };
    let _ = PutQueryError::Timeout;

    // ---- trace analysis
    struct Store {
        dst: SocketAddrV4,
        tid: u32,
        t_send: u64,
        token: Vec<u8>,
    }
    let (stores, tokens_seen, acks_in_time, acks_late, e301, e302, other_err, first_reply, ro_replies) = sim.with_trace(|tr| {
        let mut stores: Vec<Store> = vec![];
        // address -> tokens delivered to the writer, in order (t_deliver, token)
        let mut tokens_seen: BTreeMap<SocketAddrV4, Vec<(u64, Vec<u8>)>> = BTreeMap::new();
        for d in tr.iter() {
            let Some(k) = Krpc::parse(&d.bytes) else { continue };
            if d.from_host == Some(writer) && d.dup_of.is_none() {
                if let Some(q) = k.query_name() {
                    if matches!(q, "put" | "announce_peer" | "announce_signed_peer") && k.target() == Some(target) && d.t_send >= t_put {
                        stores.push(Store {
                            dst: d.dst,
                            tid: k.tid_u32().unwrap_or(0),
                            t_send: d.t_send,
                            token: k.token().unwrap_or(&[]).to_vec(),
                        });
                    }
                }
            }
            if d.dst == writer_addr && d.fate == Fate::Delivered && k.is_response() {
                if let Some(tok) = k.token() {
                    tokens_seen.entry(d.src).or_default().push((d.t_deliver.unwrap(), tok.to_vec()));
                }
            }
        }
        let mut in_time = 0usize;
        let mut late = 0usize;
        // first reply per store request: (arrival time, error code or 0 for an ack)
        let mut first_reply: BTreeMap<(SocketAddrV4, u32), (u64, i64)> = BTreeMap::new();
        let (mut e301, mut e302, mut other) = (0usize, 0usize, 0usize);
        let mut ro_replies = 0usize;
        let mut counted: BTreeSet<(SocketAddrV4, u32)> = BTreeSet::new();
        for d in tr.iter() {
            if d.dst != writer_addr || d.fate != Fate::Delivered {
                continue;
            }
            let Some(k) = Krpc::parse(&d.bytes) else { continue };
            if k.is_query() {
                continue;
            }
            let Some(s) = stores.iter().find(|s| s.dst == d.src && Some(s.tid) == k.tid_u32()) else { continue };
            if !counted.insert((d.src, s.tid)) {
                continue; // only the first copy can count
            }
            let rtt = d.t_deliver.unwrap().saturating_sub(s.t_send);
            if k.ro {
                // read-only flagged: the request is answered (no longer outstanding), the reply counts for nothing
                first_reply.insert((d.src, s.tid), (d.t_deliver.unwrap(), -1));
                ro_replies += 1;
                continue;
            }
            first_reply.insert((d.src, s.tid), (d.t_deliver.unwrap(), k.error_code().unwrap_or(0)));
            if k.is_response() {
                if rtt < 500 * MS && d.t_deliver.unwrap() <= t_done {
                    in_time += 1;
                } else {
                    late += 1;
                }
            } else if let Some(code) = k.error_code() {
                if d.t_deliver.unwrap() <= t_done {
                    match code {
                        301 => e301 += 1,
                        302 => e302 += 1,
                        _ => other += 1,
                    }
                }
            }
        }
        (stores, tokens_seen, in_time, late, e301, e302, other, first_reply, ro_replies)
    });
    report.probe("read_only_flagged_write_replies", ro_replies as u64);
    if very_slow {
        let ts = timeouts.borrow();
        if ts.iter().any(|(t, to)| *t >= t_put && *to > 2 * SEC) {
            report.probe("very_slow_runs_with_timeout_above_2s_during_the_put", 1);
        }
        let slow_acks = stores.iter().filter(|st| first_reply.get(&(st.dst, st.tid)).map(|v| v.1 == 0 && v.0.saturating_sub(st.t_send) > 2 * SEC).unwrap_or(false)).count();
        if slow_acks > 0 {
            report.probe("very_slow_runs_with_an_ack_later_than_2s", 1);
        }
    }
    report.probe("store_requests", stores.len() as u64);
    report.probe("acks_in_time", acks_in_time as u64);
    report.probe("acks_late", acks_late as u64);
    report.probe("errors_3xx", (e301 + e302) as u64);
    report.probe("errors_other", other_err as u64);
    if stores.len() > 255 {
        report.probe("more_than_255_store_requests", 1);
    }

    // writes go only to token-bearing responders, each with its own latest token
    for s in &stores {
        let toks = tokens_seen.get(&s.dst);
        let before: Vec<&(u64, Vec<u8>)> = toks.map(|v| v.iter().filter(|t| t.0 <= s.t_send).collect()).unwrap_or_default();
        if before.is_empty() {
            report.violate("write-target", "store-to-node-without-token", format!("store request sent to {} which never answered this writer with a token", s.dst));
            break;
        }
        if !before.iter().any(|t| t.1 == s.token) {
            report.violate("write-target", "store-with-foreign-token", format!("store request to {} carries token {} but that address issued {:?}", s.dst, krpc::hex(&s.token), before.iter().map(|t| krpc::hex(&t.1)).collect::<Vec<_>>()));
            break;
        }
    }

    if let Some(p) = panicked {
        report.violate("api-panic", "put-call-panicked", format!("the put call panicked: {p}"));
    } else if let Some(d) = sim.died(writer) {
        report.violate("node-died", "writer-actor-panicked", format!("writer died: {d}"));
    } else if !done {
        report.violate("hang", "put-did-not-return", format!("the put did not return within 180 s ({} store requests sent)", stores.len()));
    } else if overlap {
        // the first call may be superseded by the second: only its termination is judged here
    } else if let Some(res) = &result {
        let mutable = kind == 1;
        let n = stores.len();
        let half = n / 2 + 1;
        let majority_3xx = mutable && (e301 >= half || e302 >= half);
        match res {
            Res::Ok => {
                // a 3xx majority that was complete while another store request was still outstanding
                // must have ended the put with that error at once
                if mutable {
                    for code in [301i64, 302] {
                        let mut times: Vec<u64> = first_reply.values().filter(|v| v.1 == code).map(|v| v.0).collect();
                        times.sort();
                        if times.len() >= half {
                            let t_m = times[half - 1];
                            let outstanding = stores.iter().any(|st| {
                                let answered = first_reply.get(&(st.dst, st.tid)).map(|v| v.0 <= t_m).unwrap_or(false);
                                !answered && t_m.saturating_sub(st.t_send) < 450 * MS
                            });
                            if outstanding {
                                report.violate("false-ok", "3xx-majority-reported-as-ok", format!("put_mutable returned Ok although {} of {n} storers (a majority needs {half}) had answered {code} while other store requests were still outstanding", times.len()));
                            }
                        }
                    }
                }
                if acks_in_time + acks_late == 0 {
                    report.violate("false-ok", "ok-without-any-ack", format!("put returned Ok but no acknowledgement for it reached the writer ({n} store requests, {other_err} other errors)"));
                }
            }
            Res::Cas | Res::NotMostRecent => {
                let code_seen = if *res == Res::Cas { e301 } else { e302 };
                if !mutable {
                    report.violate("wrong-error", "concurrency-error-for-non-mutable-put", format!("a {:?} error was returned for a non-mutable put", res));
                } else if code_seen == 0 {
                    report.violate("wrong-error", "concurrency-error-without-3xx-reply", format!("put returned {:?} but no such error reply to this put was delivered (301: {e301}, 302: {e302})", res));
                } else if acks_in_time >= 1 && code_seen < half {
                    report.violate("false-error", "3xx-minority-reported-as-failure", format!("put returned {:?} although {acks_in_time} acks arrived in time and only {code_seen} of {n} storers answered with that code (a majority needs {half})", res));
                }
            }
            Res::ConflictRisk => report.violate("wrong-error", "conflict-risk-without-concurrent-put", "ConflictRisk returned with no concurrent put".into()),
            Res::Query(q) => {
                // very slow links: an acknowledgement that arrived while its request was unexpired by the writer's
                // own (recorded) request timeout at every instant in between reached the caller before the
                // requests expired - the put cannot have ended in a query error
                if very_slow && !majority_3xx {
                    let ts = timeouts.borrow();
                    if ts.iter().any(|(t, to)| *t >= t_put && *to > 2 * SEC) {
                        report.probe("very_slow_query_errors_with_timeout_above_2s", 1);
                    }
                    let acked_in_time = stores.iter().find(|st| {
                        first_reply.get(&(st.dst, st.tid)).map(|v| {
                            if v.1 != 0 {
                                return false;
                            }
                            let min_to = ts.iter().filter(|(t, _)| *t >= st.t_send && *t <= v.0).map(|(_, to)| *to).min();
                            matches!(min_to, Some(m) if v.0.saturating_sub(st.t_send) + 100 * MS < m)
                        }).unwrap_or(false)
                    });
                    if let Some(st) = acked_in_time {
                        let v = first_reply[&(st.dst, st.tid)];
                        report.violate("false-error", "error-despite-ack-within-the-reported-timeout", format!("put returned {q} at t={}ms although the acknowledgement of {} arrived {} ms after its store request, within the request timeout the writer reported throughout ({n} store requests)", t_done / MS, st.dst, v.0.saturating_sub(st.t_send) / MS));
                    }
                    if report.violation.is_none() {
                        report.probe("very_slow_query_errors_judged", 1);
                    }
                }
                // the put gave up although one of its store requests was outstanding, unexpired, and then
                // acknowledged in time: that acknowledgement reached the caller's node before the request expired
                let pending_ack = stores.iter().find(|st| st.t_send <= t_done && first_reply.get(&(st.dst, st.tid)).map(|v| v.1 == 0 && v.0 > t_done && v.0.saturating_sub(st.t_send) < 500 * MS).unwrap_or(false));
                if let (Some(st), false) = (pending_ack, majority_3xx) {
                    report.violate("false-error", "error-before-requests-expired", format!("put returned {q} at t={}ms while its store request to {} (sent at t={}ms) was still outstanding; that request was acknowledged {} ms after it was sent ({n} store requests, 301: {e301}, 302: {e302})", t_done / MS, st.dst, st.t_send / MS, first_reply[&(st.dst, st.tid)].0.saturating_sub(st.t_send) / MS));
                }
                if acks_in_time >= 1 && !majority_3xx {
                    report.violate("false-error", "error-despite-ack", format!("put returned {q} although {acks_in_time} acknowledgement(s) reached the writer in time ({n} store requests, 301: {e301}, 302: {e302}, expected acks in the big scenario: {ack_target})"));
                }
            }
        }
        // after Ok: a real acker must serve the value to a direct read
        if *res == Res::Ok && !reals.is_empty() && kind <= 1 {
            let prober = SocketAddrV4::new(priv_ip(7000), 7000);
            let (_, plog) = logging_raw(&sim, prober);
            let saved = sim.net();
            let mut clean = saved.clone();
            clean.drop_ppm = 0;
            clean.dup_ppm = 0;
            clean.slow_ppm = 0;
            sim.set_net(clean);
            for (j, h) in reals.iter().enumerate() {
                let acked = sim.with_trace(|tr| {
                    tr.iter().any(|d| d.from_host == Some(*h) && d.dst == writer_addr && d.fate == Fate::Delivered && Krpc::parse(&d.bytes).map(|k| k.is_response() && stores.iter().any(|s| s.dst == d.src && Some(s.tid) == k.tid_u32())).unwrap_or(false))
                });
                if !acked {
                    continue;
                }
                sim.raw_send(prober, sim.node_addr(*h), krpc::query(&krpc::tid_bytes(100 + j as u32), "get", krpc::get_args(&[3u8; 20], &target, None), &MsgOpts::default()));
                sim.run_for(SEC);
                let served = plog.borrow().iter().any(|(_, _, b)| Krpc::parse(b).map(|k| k.tid_u32() == Some(100 + j as u32) && k.bytes_field("v") == Some(&value)).unwrap_or(false));
                report.probe("real_acker_read_back", 1);
                if !served {
                    report.violate("false-ok", "acker-does-not-serve-value", format!("real server {} acknowledged the write but does not serve the value", sim.node_addr(*h)));
                }
            }
            sim.set_net(saved);
        }
    }
    report.nontrivial = !stores.is_empty();
    let mut fp = crate::rng::key(kind, &[acks_in_time as u64, acks_late as u64, e301 as u64, e302 as u64, other_err as u64, stores.len() as u64]);
    fp = crate::rng::key(fp, &[sim.order_fingerprint()]);
    report.fingerprint = fp;
    let plan = format!(
        "kind={kind} big={big} huge={huge} raw storers={n_raw} real servers={n_real} plan_mode={plan_mode} plans={:?}\nnet drop={} dup={} slow={}\nresult={result:?} stores={} acks_in_time={acks_in_time} late={acks_late} e301={e301} e302={e302} other={other_err} ack_target={ack_target}",
        if big { vec![] } else { plans.clone() },
        net.drop_ppm,
        net.dup_ppm,
        net.slow_ppm,
        stores.len()
    );
    report.sample = Some(json!({"kind": kind, "storers": n_raw + n_real, "result": format!("{result:?}"), "acks_in_time": acks_in_time, "e301": e301, "e302": e302, "other_errors": other_err, "store_requests": stores.len()}));
    report.plan_dump = Some(plan);
    finish(&sim, report)
}

pub fn property() -> Property {
    Property {
        id: "C08",
        run,
        budget: |t| match t {
            Tier::Quick => 12000,
            Tier::Thorough => 300_000,
        },
        wall_cap_s: |t| match t {
            Tier::Quick => 70.0,
            Tier::Thorough => 1500.0,
        },
        info: || PropInfo {
            floors: vec![],
            rule: "one run = a real writer, 1..12 scripted storers (ack / 203 / 205 / 301 / 302 / other / silence per plan; six plan families incl. 3xx majorities and all-silent) plus 0..2 real servers, response delays 0..300 ms, loss / duplication / delay-beyond-timeout faults; all four put kinds. 1 run in 60 (25 thorough) is a >255-replica run: 300 (600) token-bearing extra nodes gathered with get_closest_nodes, exactly 255/256/257/511/512/513 of them acknowledge, optionally one 301. The verdict is recomputed from the trace (first copies of acks/errors per store request, RTT < 500 ms = in time). Non-trivial = store requests were sent; distinct = (kind, #acks in time, #late, #301, #302, #other, #stores, delivery order)".into(),
            assumptions: vec![
                "acks with RTT >= 500 ms are 'maybe counted': Ok is accepted if any ack (in time or late) was delivered, an error only flagged if an in-time ack exists".into(),
                "3xx majority together with acks: either Ok or the majority's error is accepted".into(),
            ],
        },
    }
}
