//! C01 — stored data is found: put-then-get completeness and availability under crashes.

use std::collections::BTreeSet;
use std::net::SocketAddrV4;

use serde_json::json;

use crate::krpc::{self, Id, Krpc};
use crate::props::common::*;
use crate::props::netkit::*;
use crate::props::{PropInfo, Property, Report, RunCtx, Tier};
use crate::rng::Rng;
use crate::sim::*;

#[derive(Clone, Debug)]
enum Stored {
    Immutable(Vec<u8>),
    Mutable { key_seed: [u8; 32], salt: Option<Vec<u8>>, seq: i64, value: Vec<u8> },
    Peer { info_hash: Id, port: Option<u16> },
    Signed { info_hash: Id, key_seed: [u8; 32] },
}

fn target_of(s: &Stored) -> Id {
    match s {
        Stored::Immutable(v) => krpc::immutable_target(v),
        Stored::Mutable { key_seed, salt, .. } => krpc::mutable_target(&krpc::signing_key(*key_seed).verifying_key().to_bytes(), salt.as_deref()),
        Stored::Peer { info_hash, .. } | Stored::Signed { info_hash, .. } => *info_hash,
    }
}

fn put(sim: &Sim, host: HostId, s: &Stored) -> OpId {
    match s {
        Stored::Immutable(v) => sim.put_immutable(host, v.clone()),
        Stored::Mutable { key_seed, salt, seq, value } => sim.put_mutable(host, dht::MutableItem::new(&krpc::signing_key(*key_seed), value, *seq, salt.as_deref()), None),
        Stored::Peer { info_hash, port } => sim.announce_peer(host, *info_hash, *port),
        Stored::Signed { info_hash, key_seed } => sim.announce_signed_peer(host, *info_hash, *key_seed),
    }
}

fn get(sim: &Sim, host: HostId, s: &Stored) -> OpId {
    match s {
        Stored::Immutable(v) => sim.get_immutable(host, krpc::immutable_target(v)),
        Stored::Mutable { key_seed, salt, .. } => sim.get_mutable(host, krpc::signing_key(*key_seed).verifying_key().to_bytes(), salt.clone(), None),
        Stored::Peer { info_hash, .. } => sim.get_peers(host, *info_hash),
        Stored::Signed { info_hash, .. } => sim.get_signed_peers(host, *info_hash),
    }
}

fn put_ok(sim: &Sim, op: OpId) -> bool {
    sim.with_op(op, |o| matches!(&o.outcome, Some(Outcome::PutImmutable(Ok(_))) | Some(Outcome::PutMutable(Ok(_))) | Some(Outcome::Announce(Ok(_)))))
}

/// Did the read return the stored thing?
fn found(sim: &Sim, op: OpId, s: &Stored, writer_ip: std::net::Ipv4Addr) -> bool {
    sim.with_op(op, |o| match (&o.outcome, s) {
        (Some(Outcome::Immutable(Some(v))), Stored::Immutable(want)) => v.as_ref() == want.as_slice(),
        (Some(Outcome::Mutable(items)), Stored::Mutable { key_seed, salt, seq, value }) => {
            let pk = krpc::signing_key(*key_seed).verifying_key().to_bytes();
            items.iter().any(|(_, it)| it.key() == &pk && it.salt() == salt.as_deref() && it.seq() == *seq && it.value() == value.as_slice())
        }
        (Some(Outcome::Peers(batches)), Stored::Peer { port, .. }) => {
            let want = SocketAddrV4::new(writer_ip, port.unwrap_or(6881));
            batches.iter().any(|(_, b)| b.contains(&want))
        }
        (Some(Outcome::SignedPeers(batches)), Stored::Signed { info_hash, key_seed }) => {
            let pk = krpc::signing_key(*key_seed).verifying_key().to_bytes();
            batches.iter().any(|(_, b)| b.iter().any(|(k, t, sig)| k == &pk && krpc::verify(k, &krpc::signed_announce_signable(info_hash, *t), sig)))
        }
        _ => false,
    })
}

/// Real servers that acknowledged a store request of `writer` for `target` (they hold the value).
fn ackers(sim: &Sim, writer: HostId, target: &Id, since: u64, hosts: &[HostId]) -> BTreeSet<HostId> {
    let waddr = sim.node_addr(writer);
    sim.with_trace(|tr| {
        let mut stores: BTreeSet<(SocketAddrV4, u32)> = BTreeSet::new();
        for d in tr.iter().filter(|d| d.from_host == Some(writer) && d.t_send >= since) {
            if let Some(k) = Krpc::parse(&d.bytes) {
                if matches!(k.query_name(), Some("put") | Some("announce_peer") | Some("announce_signed_peer")) && k.target() == Some(*target) {
                    stores.insert((d.dst, k.tid_u32().unwrap_or(0)));
                }
            }
        }
        let mut out = BTreeSet::new();
        for d in tr.iter().filter(|d| d.dst == waddr && d.t_send >= since) {
            if let (Some(h), Some(k)) = (d.from_host, Krpc::parse(&d.bytes)) {
                if k.is_response() && stores.contains(&(d.src, k.tid_u32().unwrap_or(0))) && hosts.contains(&h) {
                    out.insert(h);
                }
            }
        }
        out
    })
}

fn run(ctx: &RunCtx) -> Report {
    let mut report = Report::default();
    let mut rng = Rng::new(ctx.seed);
    let net_cfg = NetCfg {
        latency_min_us: 500,
        latency_max_us: rng.range(2_000, 240_000),
        ..NetCfg::default()
    };
    let sim = Sim::new(ctx.seed, net_cfg);
    sim.set_snap_mode(SnapMode::OnDemand);
    let large = match ctx.tier {
        Tier::Quick => rng.chance(1, 100),
        Tier::Thorough => rng.chance(1, 30),
    };
    let mut plan = random_plan(&mut rng, 20, 30);
    plan.dead_bootstrap = 0;
    // 1 run in 12 (own random stream): *a crowd of clients* - two or three storing nodes and 24..30 client-mode
    // nodes that bootstrapped through them; a signed announcement is written and read back by one of the
    // storing nodes. Clients never answer: none of them may stand between the reader and the live acker.
    let mut crng = Rng::new(crate::rng::key(ctx.seed, &[crate::rng::tag("c01-client-crowd")]));
    let crowd = !large && crng.chance(1, 12);
    if crowd {
        plan.servers = crng.usize(2, 3);
        plan.clients = crng.usize(24, 30);
        report.probe("client_crowd_runs", 1);
    }
    if large {
        plan.servers = rng.usize(50, 300);
        plan.clients = rng.usize(0, 10);
        plan.join = Join::Staggered(10 * SEC);
    }
    let net = build(&sim, &mut rng, &plan);
    let all = net.all();
    let boots: Vec<OpId> = all.iter().map(|h| sim.bootstrapped(*h)).collect();
    sim.run_ops(&boots, sim.now() + 120 * SEC);
    sim.run_for(rng.range(1, 10) * SEC);

    // what is written, by whom
    let kind = rng.below(4);
    let kind = if crowd { 3 } else { kind };
    let key_seed: [u8; 32] = rng.bytes(32).try_into().unwrap();
    let info_hash = rng.id();
    // value sizes: small, medium, and (1 in 4) at the BEP44 limit of 1000 bytes, where a reply that
    // also carries 20 nodes is about 1.7 kB
    let vlen = match rng.below(8) {
        0 | 1 => *rng.pick(&[1000usize, 999, 990, 960, 900]),
        2 => rng.usize(200, 800),
        _ => rng.usize(1, 60),
    };
    if vlen >= 900 && kind <= 1 {
        report.probe("values_of_900_to_1000_bytes", 1);
    }
    let stored = match kind {
        0 => Stored::Immutable(rng.bytes(vlen)),
        1 => Stored::Mutable {
            key_seed,
            // no salt, a salt, a salt of the maximal length, or the (legal) empty salt
            salt: match rng.below(6) {
                0 | 1 => Some(b"salt".to_vec()),
                2 => Some(vec![]),
                3 => Some(rng.bytes(64)),
                _ => None,
            },
            seq: rng.range(0, 100) as i64,
            value: rng.bytes(vlen),
        },
        2 => Stored::Peer { info_hash, port: if rng.chance(1, 2) { Some(rng.range(1, 65535) as u16) } else { None } },
        _ => Stored::Signed { info_hash, key_seed },
    };
    let target = target_of(&stored);
    let writer = all[rng.usize(0, all.len() - 1)];
    let writer_ip = *sim.node_addr(writer).ip();
    // variant: a reader looked the key up before it was written (its lookup cache then remembers
    // the responders of that time), a server joins afterwards, and later everything but that late
    // joiner crashes: the reader knows a live acker only through its routing table
    let warm = !large && all.len() >= 3 && rng.chance(1, 6);
    let mut warm_reader: Option<HostId> = None;
    let mut late_joiner: Option<HostId> = None;
    let mut all = all;
    let mut net = net;
    if warm {
        let candidates: Vec<HostId> = all.iter().copied().filter(|h| *h != writer).collect();
        let r = candidates[rng.usize(0, candidates.len() - 1)];
        let o = get(&sim, r, &stored);
        sim.run_ops(&[o], sim.now() + 60 * SEC);
        let ip = if plan.public { pub_ip(&mut rng) } else { priv_ip(30_000) };
        let mut spec = NodeSpec::new(ip, 6881).server();
        spec.bootstrap = vec![sim.node_addr(net.first).to_string()];
        let j = sim.add_node(spec);
        let b = sim.bootstrapped(j);
        sim.run_ops(&[b], sim.now() + 60 * SEC);
        // unrelated traffic through which the reader meets the newcomer
        for _ in 0..3 {
            let o = sim.find_node(r, rng.id());
            sim.run_ops(&[o], sim.now() + 60 * SEC);
        }
        all.push(j);
        net.servers.push(j);
        warm_reader = Some(r);
        late_joiner = Some(j);
        report.probe("warm_cache_late_joiner_runs", 1);
    }
    // variant (1 run in 25): the reader is a *veteran* that has already sent more than 2^16 requests
    // (transaction ids beyond 16 bits). Cheap way to get there: a client whose bootstrap list holds
    // 1100 dead addresses next to a live one - every lookup in a small network also asks all
    // bootstrap addresses - doing find_node lookups until its request count passes 66 000.
    let mut veteran: Option<HostId> = None;
    if !large && !warm && rng.chance(1, 25) {
        let ip = if plan.public { pub_ip(&mut rng) } else { priv_ip(31_000) };
        let mut spec = NodeSpec::new(ip, 6881);
        let mut b = vec![sim.node_addr(net.first).to_string()];
        for i in 0..1100u32 {
            b.push(SocketAddrV4::new(std::net::Ipv4Addr::new(203, 0, (113 + i / 250) as u8, (1 + i % 250) as u8), 6881).to_string());
        }
        spec.bootstrap = b;
        let v = sim.add_node(spec);
        let bo = sim.bootstrapped(v);
        sim.run_ops(&[bo], sim.now() + 60 * SEC);
        let mut sent = 0usize;
        let mut rounds = 0;
        while sent < 66_000 && rounds < 100 {
            let o = sim.find_node(v, rng.id());
            sim.run_ops(&[o], sim.now() + 60 * SEC);
            sent = sim.with_trace(|tr| tr.iter().filter(|d| d.from_host == Some(v)).count());
            rounds += 1;
        }
        if sent >= 66_000 {
            report.probe("veteran_reader_runs", 1);
            veteran = Some(v);
        }
        all.push(v);
        net.clients.push(v);
    }
    // variant: the writer announces the same info hash both ways at once (as a torrent client would)
    let both_announces = kind >= 2 && rng.chance(1, 5) && !large;
    // variant (mutable items, 1 run in 4): the key already holds an earlier version - same seq with
    // another value (a storing node accepts that and keeps the newer write), or a lower seq
    if let Stored::Mutable { key_seed, salt, seq, .. } = &stored {
        if rng.chance(1, 4) && !large {
            let old_seq = if rng.chance(1, 2) || *seq == 0 { *seq } else { *seq - 1 };
            let old = Stored::Mutable { key_seed: *key_seed, salt: salt.clone(), seq: old_seq, value: b"an earlier version".to_vec() };
            let o = put(&sim, writer, &old);
            sim.run_ops(&[o], sim.now() + 120 * SEC);
            sim.run_for(rng.range(0, 3) * SEC);
            report.probe(if old_seq == *seq { "rewrite_same_seq_other_value" } else { "rewrite_higher_seq" }, 1);
        }
    }
    let t_put = sim.now();
    let op_put = put(&sim, writer, &stored);
    let other = if kind == 2 { Stored::Signed { info_hash, key_seed } } else { Stored::Peer { info_hash, port: Some(4321) } };
    let op_put2 = if both_announces {
        sim.run_for(rng.range(0, 300) * MS);
        Some(put(&sim, writer, &other))
    } else {
        None
    };
    let mut puts = vec![op_put];
    puts.extend(op_put2);
    let put_done = sim.run_ops(&puts, sim.now() + 120 * SEC);
    let what_base = format!("{plan:?} kind={kind} writer={} both_announces={both_announces} warm_cache_late_joiner={warm}", sim.node_addr(writer));
    if !put_done {
        report.violate("hang", "put-did-not-return", format!("the put did not return; {what_base}"));
        return finish(&sim, report);
    }
    if !put_ok(&sim, op_put) || op_put2.map(|o| !put_ok(&sim, o)).unwrap_or(false) {
        // nothing to check: the property starts from a put that returned Ok
        report.vacuous = true;
        report.probe("put_failed", 1);
        if net.servers.len() >= 2 || (net.servers.len() == 1 && writer != net.servers[0]) {
            let detail = sim.with_op(op_put, |o| format!("{:?}", o.panicked));
            report.probe("put_failed_with_other_servers_present", 1);
            let _ = detail;
        }
        report.sample = Some(json!({"plan": what_base, "put": "failed"}));
        return finish(&sim, report);
    }
    let acked = ackers(&sim, writer, &target, t_put, &net.servers);
    report.probe("ackers", acked.len() as u64);
    // announce_peer, 1 run in 3 (own random stream): a *roommate* - a second client behind the writer's IP
    // (another UDP port: a second client on one host, or the neighbour behind one NAT) announces itself for the
    // same info hash after the writer did. The writer's own endpoint stays announced.
    let mut xrng = Rng::new(crate::rng::key(ctx.seed, &[crate::rng::tag("c01-roommate-inflight")]));
    // nodes added after the network was built (they count towards the 20-candidate envelope like any other)
    let mut latecomers: Vec<HostId> = vec![];
    if kind == 2 && !large && xrng.chance(1, 3) {
        let mut rs = NodeSpec::new(writer_ip, 6890);
        rs.bootstrap = vec![sim.node_addr(net.first).to_string()];
        let mate = sim.add_node(rs);
        latecomers.push(mate);
        let b = sim.bootstrapped(mate);
        sim.run_ops(&[b], sim.now() + 60 * SEC);
        let o = sim.announce_peer(mate, info_hash, if xrng.chance(1, 2) { Some(xrng.range(1, 65535) as u16) } else { None });
        sim.run_ops(&[o], sim.now() + 120 * SEC);
        report.probe("roommate_announcers_behind_the_writers_ip", 1);
    }

    // crash set
    let crash_mode = if warm { 6 } else { rng.below(6) };
    let mut crashed: Vec<HostId> = vec![];
    let candidates: Vec<HostId> = all.clone();
    match crash_mode {
        0 => {}
        6 => {
            // every server but the late joiner
            for h in &net.servers {
                if Some(*h) != late_joiner && Some(*h) != warm_reader {
                    crashed.push(*h);
                }
            }
        }
        1 => {
            for h in &candidates {
                if rng.chance(1, 3) {
                    crashed.push(*h);
                }
            }
        }
        2 => {
            // all ackers but one
            let mut a: Vec<HostId> = acked.iter().copied().collect();
            rng.shuffle(&mut a);
            crashed.extend(a.into_iter().skip(1));
        }
        3 => crashed.push(net.first),
        4 => {
            // everything that did not acknowledge
            for h in &net.servers {
                if !acked.contains(h) && rng.chance(2, 3) {
                    crashed.push(*h);
                }
            }
        }
        _ => {
            for h in &candidates {
                if rng.chance(1, 8) {
                    crashed.push(*h);
                }
            }
        }
    }
    crashed.retain(|h| Some(*h) != veteran);
    // readers: other nodes, alive
    let mut reader_pool: Vec<HostId> = all.iter().copied().filter(|h| *h != writer && !crashed.contains(h)).collect();
    if reader_pool.is_empty() {
        crashed.retain(|h| *h == writer);
        reader_pool = all.iter().copied().filter(|h| *h != writer && !crashed.contains(h)).collect();
    }
    report.elements = crashed.len();
    let crashed: Vec<HostId> = crashed.iter().enumerate().filter(|(i, _)| ctx.enabled(*i)).map(|(_, h)| *h).collect();
    for h in &crashed {
        sim.crash(*h);
    }
    // some crashed servers come back empty on the same address (new id, fresh state)
    let mut restarted = vec![];
    if !large && !warm && net.servers.len() + crashed.len() <= 20 {
        for h in &crashed {
            if rng.chance(1, 4) && *h != net.first {
                sim.run_for(rng.range(0, 2000) * MS);
                sim.restart(*h, None);
                restarted.push(*h);
            }
        }
    }
    // time between the acknowledged write and the read
    let gap = if warm {
        rng.range(0, 60) * SEC
    } else {
        match rng.below(10) {
            0..=4 => rng.range(0, 5) * SEC,
            5..=7 => rng.range(46, 180) * SEC,
            _ => rng.range(6, 20) * 60 * SEC,
        }
    };
    // 1 run in 8 (own random stream): a read more than half an hour after the write - nothing in the property
    // lets an acknowledged value expire while its holder is alive (stores are bounded by capacity, not age)
    let gap = if !large && xrng.chance(1, 8) {
        report.probe("reads_later_than_30_minutes", 1);
        xrng.range(31, 75) * 60 * SEC
    } else {
        gap
    };
    sim.run_for(gap);
    report.probe(if gap > 45 * SEC { "reads_later_than_45s" } else { "reads_within_45s" }, 1);
    if let Some(r) = warm_reader.or(veteran) {
        reader_pool = vec![r];
    }
    if crowd {
        reader_pool.retain(|h| net.servers.contains(h));
    }
    if reader_pool.is_empty() {
        report.vacuous = true;
        report.sample = Some(json!({"plan": what_base, "readers": 0}));
        return finish(&sim, report);
    }
    let n_readers = rng.usize(1, 3.min(reader_pool.len()));
    rng.shuffle(&mut reader_pool);
    let readers: Vec<HostId> = reader_pool.into_iter().take(n_readers).collect();
    refresh_snapshots(&sim, &all);
    let live: Vec<HostId> = all.iter().copied().filter(|h| sim.alive(*h)).collect();
    // lookups walk the main tables, signed-peers lookups the signed-peers tables
    let graph = knows_graph_of(&sim, &live, kind != 3, kind == 3);

    let what = format!("{what_base} ackers={:?} crashed={:?} restarted={:?} crash_mode={crash_mode}", acked.iter().map(|h| sim.node_addr(*h)).collect::<Vec<_>>(), crashed.iter().map(|h| sim.node_addr(*h)).collect::<Vec<_>>(), restarted.iter().map(|h| sim.node_addr(*h)).collect::<Vec<_>>());
    // adaptive-mode clients may have become servers meanwhile: with more than 20 storing nodes the
    // deterministic verdict no longer applies (completeness is then probabilistic)
    // (crashed servers count too: they stay in the tables for 15+ minutes and keep their rank among
    // the 20 candidates of a lookup, as do the former identities of restarted ones)
    for h in &latecomers {
        sim.want_snapshot(*h);
    }
    if !latecomers.is_empty() {
        sim.run_for(600 * MS);
    }
    let switched = live.iter().chain(latecomers.iter()).filter(|h| !net.servers.contains(h) && sim.alive(**h) && sim.snapshot(**h).map(|s| s.server_mode).unwrap_or(false)).count();
    let servers_now = net.servers.len() + restarted.len() + switched;
    let beyond_envelope = servers_now > 20 && !large;
    if beyond_envelope {
        report.probe("more_than_20_servers_after_adaptive_switch", 1);
    }
    let mut any_judged = false;
    for reader in &readers {
        // precondition: a live acker other than the reader (and not restarted empty) is reachable
        // from the reader through live nodes' tables
        let reach = reachable(&graph, *reader);
        let holders: Vec<HostId> = acked.iter().copied().filter(|h| *h != *reader && sim.alive(*h) && !restarted.contains(h)).collect();
        let pre = holders.iter().any(|h| reach.contains(h));
        // in-flight variants on the reader
        let variant = if large { rng.below(2) } else { rng.below(5) };
        let mut pre_ops = vec![];
        match variant {
            1 => {
                // the same lookup already in flight
                pre_ops.push(get(&sim, *reader, &stored));
                sim.run_for(rng.range(0, 400) * MS);
            }
            2 if kind >= 2 => {
                // a lookup of the other announce kind for the same info hash in flight
                pre_ops.push(get(&sim, *reader, &other));
                sim.run_for(rng.range(0, 400) * MS);
            }
            3 => {
                // a PUT for the same key in flight on the reader (the get joins the put's lookup): a stale copy
                // of the mutable item (lower seq, other value), the same immutable value, or the reader's
                // own announcement for the info hash
                let mine = match &stored {
                    Stored::Immutable(v) => Stored::Immutable(v.clone()),
                    Stored::Mutable { key_seed, salt, seq, .. } => Stored::Mutable { key_seed: *key_seed, salt: salt.clone(), seq: seq.saturating_sub(1 + xrng.below(3) as i64), value: b"a stale copy held by the reader".to_vec() },
                    Stored::Peer { info_hash, .. } => Stored::Peer { info_hash: *info_hash, port: Some(4555) },
                    Stored::Signed { info_hash, .. } => Stored::Signed { info_hash: *info_hash, key_seed: [0x5a; 32] },
                };
                let _ = put(&sim, *reader, &mine);
                sim.run_for(xrng.range(0, 300) * MS);
                report.probe("reader_has_a_put_for_the_key_in_flight", 1);
            }
            _ => {}
        }
        let op = get(&sim, *reader, &stored);
        let mut wait = vec![op];
        wait.extend(pre_ops.iter().copied());
        let done = sim.run_ops(&wait, sim.now() + 180 * SEC);
        if !done {
            report.violate("hang", "get-did-not-return", format!("reader {} : the lookup did not end; {what}", sim.node_addr(*reader)));
            break;
        }
        if let Some(p) = sim.with_op(op, |o| o.panicked.clone()) {
            report.violate("api-panic", "get-panicked", format!("reader {} : {p}; {what}", sim.node_addr(*reader)));
            break;
        }
        let ok = found(&sim, op, &stored, writer_ip);
        // (the same lookup already in flight: the earlier caller shares the lookup and is owed the value too)
        let ok = ok && (variant != 1 || pre_ops.iter().all(|p| found(&sim, *p, &stored, writer_ip)));
        if !pre {
            report.probe("vacuous_reader_no_reachable_acker", 1);
            continue;
        }
        if beyond_envelope {
            report.probe(if ok { "beyond_envelope_found" } else { "beyond_envelope_not_found" }, 1);
            continue;
        }
        any_judged = true;
        if large {
            report.probe(if ok { "stat_large_found_ok" } else { "stat_large_found_fail" }, 1);
            continue;
        }
        report.probe(if ok { "found" } else { "not_found" }, 1);
        if !ok && ctx.verbose {
            let ra = sim.node_addr(*reader);
            let t_issue = sim.with_op(op, |o| o.issued_at);
            sim.with_trace(|tr| {
                for d in tr.iter().filter(|d| d.t_send >= t_issue && (d.src == ra || d.dst == ra)) {
                    if d.dst == ra || !matches!(d.fate, Fate::NoSuchDest) {
                        println!("  t={:.3}s {} -> {} {} consumed={:?}", d.t_send as f64 / 1e9, d.src, d.dst, Krpc::parse(&d.bytes).map(|k| format!("{:?} tid={:?} target={:?}", k.query_name(), k.tid_u32(), k.target().map(|t| hex8(&t)))).unwrap_or_default(), d.consumed);
                    }
                }
            });
        }
        if !ok {
            let key = match variant {
                2 if kind >= 2 => "not-found-while-other-kind-lookup-in-flight-on-same-target",
                _ if both_announces => "two-announce-kinds-at-once-one-lost",
                1 => "not-found-while-same-lookup-in-flight",
                3 => "not-found-while-own-put-for-the-key-in-flight",
                _ => "stored-value-not-found",
            };
            report.violate(
                "completeness",
                key,
                format!("reader {} (server_mode={}) did not get the stored value although live acker(s) {:?} are reachable through its tables; in-flight variant {variant}; {what}", sim.node_addr(*reader), sim.node_spec(*reader).server_mode, holders.iter().filter(|h| reach.contains(h)).map(|h| sim.node_addr(*h)).collect::<Vec<_>>()),
            );
            break;
        }
        // the second announce kind must be retrievable too
        if both_announces && variant != 2 {
            let op2 = get(&sim, *reader, &other);
            sim.run_ops(&[op2], sim.now() + 180 * SEC);
            if !found(&sim, op2, &other, writer_ip) {
                report.violate("completeness", "two-announce-kinds-at-once-one-lost", format!("announce_peer and announce_signed_peer for one info hash were issued together and both returned Ok, but reader {} finds only one of them; {what}", sim.node_addr(*reader)));
                break;
            }
        }
    }
    report.vacuous = !any_judged;
    report.nontrivial = any_judged && !crashed.is_empty();
    if large {
        report.probe("large_network", 1);
    }
    report.probe(&format!("crash_mode_{crash_mode}"), 1);
    report.sample = Some(json!({"scenario": what}));
    report.plan_dump = Some(what);
    finish(&sim, report)
}

pub fn property() -> Property {
    Property {
        id: "C01",
        run,
        budget: |t| match t {
            Tier::Quick => 3000,
            Tier::Thorough => 150_000,
        },
        wall_cap_s: |t| match t {
            Tier::Quick => 80.0,
            Tier::Thorough => 1700.0,
        },
        info: || PropInfo {
            floors: vec![("large_found".into(), 0.75, 40)],
            rule: "one run = a network of real nodes (1..20 servers + 0..30 clients; 1 run in 100 / 30: 50..300 servers, judged by success rate), private or public IP plan, sequential / staggered / simultaneous joins, optional clock skew; any node writes one of the four data kinds (1/5 of announce runs issue both announce kinds for one info hash at once); after Ok the acknowledging servers are read off the trace; crash set in {none, random third, all ackers but one, the bootstrap hub, non-ackers, random eighth}, some crashed servers restart empty on the same address; 1..3 readers (any other live node), optionally with the same lookup or a lookup of the other announce kind already in flight. Precondition per reader (else vacuous): a live acker other than the reader is reachable from it through live nodes' routing tables (snapshots at read time). Non-trivial = judged and at least one node crashed; distinct = delivery-order hash".into(),
            assumptions: vec!["honest, loss-free network with one-way latency <= 240 ms".into(), "restarts only while servers + reincarnations <= 20 so that the deterministic verdict applies".into()],
        },
    }
}
