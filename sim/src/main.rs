mod api;
mod bencode;
mod krpc;
mod rng;
mod sim;

use sim::*;
use std::net::{Ipv4Addr, SocketAddrV4};

fn main() {
    let t0 = std::time::Instant::now();
    let sim = Sim::new(1, NetCfg::default());
    let n = 10;
    let boot = SocketAddrV4::new(Ipv4Addr::new(10, 0, 0, 1), 6881);
    let mut hosts = vec![];
    for i in 0..n {
        let ip = Ipv4Addr::new(10, 0, 0, 1 + i as u8);
        let mut spec = NodeSpec::new(ip, 6881).server();
        if i > 0 {
            spec = spec.bootstrap(&[boot]);
        }
        hosts.push(sim.add_node(spec));
        sim.run_for(2 * SEC);
    }
    for h in &hosts {
        println!("host {h} alive={} died={:?} table={:?}", sim.alive(*h), sim.died(*h), sim.snapshot(*h).map(|s| s.routing_table.size));
    }
    let put = sim.put_immutable(hosts[3], b"hello world".to_vec());
    let ok = sim.run_ops(&[put], sim.now() + 60 * SEC);
    println!("put done={ok} at {}ms", sim.now() / MS);
    sim.with_op(put, |o| match &o.outcome {
        Some(Outcome::PutImmutable(r)) => println!("put result {:?}", r),
        _ => println!("?? {:?}", o.panicked),
    });
    let target = krpc::immutable_target(b"hello world");
    let get = sim.get_immutable(hosts[7], target);
    let ok = sim.run_ops(&[get], sim.now() + 60 * SEC);
    println!("get done={ok} at {}ms", sim.now() / MS);
    sim.with_op(get, |o| match &o.outcome {
        Some(Outcome::Immutable(r)) => println!("get result {:?}", r.as_ref().map(|b| String::from_utf8_lossy(b).to_string())),
        _ => println!("?? {:?}", o.panicked),
    });
    sim.run_for(3600 * SEC);
    println!("stats {:?} trace {} wall {:?}", sim.stats(), sim.trace_len(), t0.elapsed());
    sim.teardown();
}
