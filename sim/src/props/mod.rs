//! Property scenarios + oracles. Each property is a function from a run context (seed, tier,
//! minimisation mask) to a report.

use std::collections::BTreeMap;

use serde_json::Value;

use crate::sim::FaultStats;

pub mod common;
pub mod c01;
pub mod c02;
pub mod c03;
pub mod c04;
pub mod c05;
pub mod c06;
pub mod c07;
pub mod c08;
pub mod c09;
pub mod c11;
pub mod c12;
pub mod c13;
pub mod c14;
pub mod c15;
pub mod netkit;
pub mod c16;
pub mod c17;
pub mod c18;
pub mod c20;
pub mod server_model;

#[derive(Clone, Copy, Debug, PartialEq)]
pub enum Tier {
    Quick,
    Thorough,
}

impl Tier {
    pub fn name(&self) -> &'static str {
        match self {
            Tier::Quick => "quick",
            Tier::Thorough => "thorough",
        }
    }
    pub fn parse(s: &str) -> Tier {
        if s == "thorough" {
            Tier::Thorough
        } else {
            Tier::Quick
        }
    }
}

#[derive(Clone, Debug)]
pub struct RunCtx {
    /// VERIF_SEED of the batch and the run's index in it (for enumerating sweeps)
    pub base: u64,
    pub index: u64,
    pub seed: u64,
    pub tier: Tier,
    /// plan elements disabled by the minimiser
    pub disabled: Vec<usize>,
    pub verbose: bool,
}

impl RunCtx {
    pub fn new(seed: u64, tier: Tier) -> Self {
        RunCtx {
            base: 0,
            index: 0,
            seed,
            tier,
            disabled: vec![],
            verbose: false,
        }
    }
    pub fn at(base: u64, index: u64, seed: u64, tier: Tier) -> Self {
        let mut c = RunCtx::new(seed, tier);
        c.base = base;
        c.index = index;
        c
    }
    pub fn enabled(&self, element: usize) -> bool {
        !self.disabled.contains(&element)
    }
}

#[derive(Clone, Debug)]
pub struct Violation {
    /// violation class: stable under minimisation
    pub class: String,
    /// identifies the specific failing input / call site / history (known-findings key)
    pub key: String,
    pub detail: String,
}

#[derive(Clone, Debug, Default)]
pub struct Report {
    pub violation: Option<Violation>,
    pub harness_error: Option<String>,
    /// the property's trigger condition actually occurred in this run
    pub nontrivial: bool,
    pub vacuous: bool,
    /// schedule fingerprint (distinctness measure)
    pub fingerprint: u64,
    /// hash of the complete event sequence (determinism check)
    pub det_hash: u64,
    pub sim_time_ns: u64,
    pub steps: u64,
    pub faults: BTreeMap<String, u64>,
    pub probes: BTreeMap<String, u64>,
    pub sample: Option<Value>,
    /// number of maskable plan elements
    pub elements: usize,
    pub plan_dump: Option<String>,
    pub trace_tail: Vec<String>,
}

impl Report {
    pub fn probe(&mut self, name: &str, n: u64) {
        *self.probes.entry(name.to_string()).or_insert(0) += n;
    }
    pub fn violate(&mut self, class: &str, key: &str, detail: String) {
        if self.violation.is_none() {
            self.violation = Some(Violation {
                class: class.to_string(),
                key: key.to_string(),
                detail,
            });
        }
    }
    pub fn absorb_stats(&mut self, s: &FaultStats) {
        let items: [(&str, u64); 14] = [
            ("datagrams_sent", s.sent),
            ("loss", s.dropped),
            ("duplication", s.duplicated),
            ("corruption", s.corrupted),
            ("delay_beyond_timeout", s.slowed),
            ("partition_drop", s.partition_drops),
            ("nat_drop", s.nat_drops),
            ("dead_destination", s.no_dest),
            ("inbox_overflow", s.inbox_full),
            ("send_syscall_error", s.send_errors),
            ("recv_syscall_error", s.recv_errors),
            ("crash", s.crashes),
            ("restart", s.restarts),
            ("stall", s.stalls),
        ];
        for (k, v) in items {
            *self.faults.entry(k.to_string()).or_insert(0) += v;
        }
        *self.faults.entry("explicit_fault".to_string()).or_insert(0) += s.explicit_faults;
        self.steps += s.steps;
    }
}

pub struct PropInfo {
    /// batch-level verdicts: (statistic name, minimal success rate, minimal sample count);
    /// runs report probes `stat_<name>_ok` / `stat_<name>_fail`
    pub floors: Vec<(String, f64, u64)>,
    pub rule: String,
    pub assumptions: Vec<String>,
}

pub struct Property {
    pub id: &'static str,
    pub run: fn(&RunCtx) -> Report,
    pub budget: fn(Tier) -> u64,
    pub wall_cap_s: fn(Tier) -> f64,
    pub info: fn() -> PropInfo,
}

pub fn all() -> Vec<Property> {
    vec![c01::property(), c02::property(), c03::property(), c04::property(), c05::property(), c06::property(), c07::property(), c08::property(), c09::property(), c11::property(), c12::property(), c13::property(), c14::property(), c15::property(), c16::property(), c17::property(), c18::property(), c20::property()]
}

pub fn get(id: &str) -> Option<Property> {
    all().into_iter().find(|p| p.id == id)
}
