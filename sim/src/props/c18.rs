//! C18 — client, server and adaptive modes behave as documented (BEP43).

use std::cell::RefCell;
use std::collections::BTreeSet;
use std::net::{Ipv4Addr, SocketAddrV4};
use std::rc::Rc;

use serde_json::json;

use crate::hostile::Catalogue;
use crate::krpc::{self, Item, Krpc, MsgOpts};
use crate::props::common::*;
use crate::props::{PropInfo, Property, Report, RunCtx, Tier};
use crate::rawnet::*;
use crate::rng::Rng;
use crate::sim::*;

fn tables_contain(s: &dht::verif::Snapshot, addr: &SocketAddrV4) -> bool {
    [&s.routing_table, &s.signed_peers_routing_table].iter().any(|t| t.buckets.iter().any(|(_, b)| b.iter().any(|n| n.address == *addr)))
}

fn run(ctx: &RunCtx) -> Report {
    let mut report = Report::default();
    let mut rng = Rng::new(ctx.seed);
    let family = rng.below(4);
    let net = NetCfg {
        latency_min_us: 500,
        latency_max_us: rng.range(2_000, 100_000),
        ..NetCfg::default()
    };
    let sim = Sim::new(ctx.seed, net);
    sim.set_snap_mode(SnapMode::OnConsume);
    sim.set_snap_every(8);
    let public = family == 3 || rng.chance(1, 2);
    let rawnet = RawNet::new();
    let n_raw = rng.usize(2, 8);
    let mut addrs = vec![];
    let key = krpc::signing_key(rng.bytes(32).try_into().unwrap());
    let item = Item::signed(&key, None, 2, b"mutable");
    let value = b"immutable".to_vec();
    let info_hash = rng.id();
    for i in 0..n_raw {
        let ip = if public { pub_ip(&mut rng) } else { priv_ip(80 + i) };
        let addr = SocketAddrV4::new(ip, 6881);
        let mut p = Peer::new(if public { krpc::bep42_id(ip, rng.id()) } else { rng.id() }, addr);
        p.k = 20;
        rawnet.add(&sim, p);
        addrs.push(addr);
    }
    for i in 0..n_raw {
        rawnet.with_peer(i, |p| p.knows = (0..n_raw).collect());
    }
    let mut plan = format!("family={family} public={public} raw={n_raw}");
    report.elements = 0;
    match family {
        // ------------------------------------------------------------------ client silence + ro marking
        0 => {
            let mut spec = NodeSpec::new(if public { pub_ip(&mut rng) } else { priv_ip(1) }, 6881);
            spec.bootstrap = addrs.iter().map(|a| a.to_string()).collect();
            let client = sim.add_node(spec);
            let caddr = sim.node_addr(client);
            sim.run_for(2 * SEC);
            // every request kind (well-formed and malformed) is thrown at the client
            let cat = Catalogue::new(&mut rng.fork("cat"), &krpc::tid_bytes(5));
            let requester = SocketAddrV4::new(if public { pub_ip(&mut rng) } else { priv_ip(3000) }, 3000);
            let (_, rlog) = logging_raw(&sim, requester);
            let n = rng.usize(10, 60);
            for i in 0..n {
                let bytes = if rng.chance(2, 3) { cat.bases[rng.usize(0, 8)].1.encode() } else { cat.get(rng.usize(0, cat.len() - 1)).1 };
                let src = if rng.chance(3, 4) { requester } else { addrs[rng.usize(0, n_raw - 1)] };
                sim.raw_send(src, caddr, bytes);
                sim.run_for(rng.range(1, 400) * MS);
                let _ = i;
            }
            // the client also works: lookups and a put
            let o1 = sim.get_immutable(client, krpc::immutable_target(&value));
            let o2 = sim.put_immutable(client, value.clone());
            let o3 = sim.announce_peer(client, info_hash, None);
            sim.run_ops(&[o1, o2, o3], sim.now() + 60 * SEC);
            sim.run_for(rng.range(1, 400) * SEC);
            // oracle
            let (bad_out, not_ro) = sim.with_trace(|tr| {
                let mut bad = None;
                let mut not_ro = None;
                for d in tr.iter().filter(|d| d.from_host == Some(client)) {
                    match Krpc::parse(&d.bytes) {
                        Some(k) if k.is_query() => {
                            if !k.ro && not_ro.is_none() {
                                not_ro = Some(trace_line(d));
                            }
                        }
                        Some(_) => {
                            if bad.is_none() {
                                bad = Some(trace_line(d));
                            }
                        }
                        None => {}
                    }
                }
                (bad, not_ro)
            });
            if let Some(b) = bad_out {
                report.violate("client-mode", "client-emitted-a-reply", format!("the client-mode node sent a response or error: {b}"));
            }
            if let Some(b) = not_ro {
                report.violate("client-mode", "client-request-without-ro", format!("a request of the client-mode node is not marked read-only: {b}"));
            }
            if !rlog.borrow().is_empty() {
                report.violate("client-mode", "client-emitted-a-reply", format!("the requester received {} datagrams from the client", rlog.borrow().len()));
            }
            if let Some(s) = sim.snapshot(client) {
                let st = &s.store;
                if !st.immutable.is_empty() || !st.mutable.is_empty() || !st.peers.is_empty() || !st.signed_peers.is_empty() {
                    report.violate("client-mode", "client-stored-data", "the client-mode node's stores are not empty".into());
                }
            }
            if let Some(d) = sim.died(client) {
                report.violate("node-died", "client-actor-panicked", format!("client died: {d}"));
            }
            report.nontrivial = true;
            report.probe("family_client_silence", 1);
        }
        // ------------------------------------------------------------------ ro requesters never enter tables
        1 => {
            let first = rng.chance(1, 2);
            let mut spec = NodeSpec::new(if public { pub_ip(&mut rng) } else { priv_ip(1) }, 6881).server();
            if !first {
                spec.bootstrap = addrs.iter().map(|a| a.to_string()).collect();
            }
            let server = sim.add_node(spec);
            let saddr = sim.node_addr(server);
            // a real client that bootstraps from the server
            let mut cspec = NodeSpec::new(if public { pub_ip(&mut rng) } else { priv_ip(2) }, 6881);
            cspec.bootstrap = vec![saddr.to_string()];
            let client = sim.add_node(cspec);
            let caddr = sim.node_addr(client);
            let mut ro_addrs: BTreeSet<SocketAddrV4> = BTreeSet::new();
            ro_addrs.insert(caddr);
            let mut normal_addrs: Vec<SocketAddrV4> = vec![];
            let n = rng.usize(5, 50);
            for i in 0..n {
                let ro = rng.chance(1, 2);
                let ip = if public { pub_ip(&mut rng) } else { priv_ip(2000 + i) };
                let src = SocketAddrV4::new(ip, 2000 + (i % 100) as u16);
                let id = if public { krpc::bep42_id(ip, rng.id()) } else { rng.id() };
                let opts = MsgOpts {
                    ro: if ro { Some(1) } else if rng.chance(1, 2) { Some(0) } else { None },
                    ..MsgOpts::default()
                };
                let q = *rng.pick(&["find_node", "find_node", "find_node", "get_peers", "get", "ping", "get_signed_peers"]);
                let args = match q {
                    "find_node" => krpc::find_node_args(&id, &id),
                    "get" => krpc::get_args(&id, &rng.id(), None),
                    "ping" => krpc::ping_args(&id),
                    _ => krpc::get_peers_args(&id, &rng.id()),
                };
                if ro {
                    ro_addrs.insert(src);
                } else if q == "find_node" {
                    normal_addrs.push(src);
                }
                sim.raw_send(src, saddr, krpc::query(&krpc::tid_bytes(i as u32), q, args, &opts));
                sim.run_for(rng.range(1, 500) * MS);
            }
            let bad: Rc<RefCell<Option<String>>> = Default::default();
            {
                let bad = bad.clone();
                let ro_addrs = ro_addrs.clone();
                sim.set_observer(Box::new(move |h, now, s| {
                    if h == server && bad.borrow().is_none() {
                        for a in &ro_addrs {
                            if tables_contain(s, a) {
                                *bad.borrow_mut() = Some(format!("at t={}ms the server's tables contain read-only requester {a}", now / MS));
                            }
                        }
                    }
                }));
            }
            let o = sim.find_node(client, rng.id());
            sim.run_ops(&[o], sim.now() + 60 * SEC);
            sim.run_for(rng.range(1, 30) * SEC);
            if let Some(s) = sim.snapshot(server) {
                for a in &ro_addrs {
                    if tables_contain(&s, a) {
                        *bad.borrow_mut() = Some(format!("the server's tables contain read-only requester {a}"));
                    }
                }
                // control: a first node does learn normal find_node requesters
                if first && !normal_addrs.is_empty() && !normal_addrs.iter().any(|a| tables_contain(&s, a)) {
                    report.violate("server-mode", "first-node-ignored-normal-requesters", format!("the first node added none of {} normal find_node requesters", normal_addrs.len()));
                }
            }
            if let Some(b) = bad.borrow().clone() {
                report.violate("server-mode", "read-only-requester-in-table", b);
            }
            // servers do not mark their requests read-only
            let srv_ro = sim.with_trace(|tr| tr.iter().find(|d| d.from_host == Some(server) && Krpc::parse(&d.bytes).map(|k| k.is_query() && k.ro).unwrap_or(false)).map(trace_line));
            if let Some(l) = srv_ro {
                report.violate("server-mode", "server-request-marked-ro", format!("a server-mode node marked a request read-only: {l}"));
            }
            report.nontrivial = true;
            report.probe("family_ro_requesters", 1);
            report.probe("ro_requesters", ro_addrs.len() as u64);
        }
        // ------------------------------------------------------------------ ro replies are ignored
        2 => {
            let ro_peers: Vec<usize> = (0..n_raw).filter(|_| rng.chance(1, 2)).collect();
            let marker_vote = SocketAddrV4::new(Ipv4Addr::new(7, 7, 7, 7), 7777);
            for i in 0..n_raw {
                let is_ro = ro_peers.contains(&i);
                rawnet.with_peer(i, |p| {
                    if is_ro {
                        p.ro = true;
                        p.immutable.insert(krpc::immutable_target(&value), value.clone());
                        p.mutable.insert(item.target(), item.clone());
                        p.peers.insert(info_hash, vec![SocketAddrV4::new(priv_ip(555), 5)]);
                        p.ip_vote = Some(marker_vote);
                    }
                });
            }
            let mut spec = NodeSpec::new(if public { pub_ip(&mut rng) } else { priv_ip(1) }, 6881);
            spec.server_mode = rng.chance(1, 2);
            spec.bootstrap = addrs.iter().map(|a| a.to_string()).collect();
            let reader = sim.add_node(spec);
            let bad: Rc<RefCell<Option<(String, String)>>> = Default::default();
            {
                let bad = bad.clone();
                let ro_addrs: Vec<SocketAddrV4> = ro_peers.iter().map(|i| addrs[*i]).collect();
                sim.set_observer(Box::new(move |h, now, s| {
                    if h == reader && bad.borrow().is_none() {
                        for a in &ro_addrs {
                            if tables_contain(s, a) {
                                *bad.borrow_mut() = Some(("ro-responder-in-table".into(), format!("at t={}ms the routing table contains {a}, which only ever answered with ro=1", now / MS)));
                            }
                        }
                        if s.public_address == Some(marker_vote) {
                            *bad.borrow_mut() = Some(("ro-responder-vote-counted".into(), format!("at t={}ms public_address is the vote carried only by ro=1 replies", now / MS)));
                        }
                    }
                }));
            }
            sim.run_for(3 * SEC);
            let o1 = sim.get_immutable(reader, krpc::immutable_target(&value));
            let o2 = sim.get_mutable(reader, key.verifying_key().to_bytes(), None, None);
            let o3 = sim.get_peers(reader, info_hash);
            sim.run_ops(&[o1, o2, o3], sim.now() + 60 * SEC);
            if sim.with_op(o1, |o| matches!(o.outcome, Some(Outcome::Immutable(Some(_))))) {
                report.violate("ro-reply", "ro-responder-value-surfaced", "get_immutable returned a value that only ro=1 replies carried".into());
            }
            if sim.with_op(o2, |o| matches!(&o.outcome, Some(Outcome::Mutable(v)) if !v.is_empty())) {
                report.violate("ro-reply", "ro-responder-value-surfaced", "get_mutable yielded an item that only ro=1 replies carried".into());
            }
            if sim.with_op(o3, |o| matches!(&o.outcome, Some(Outcome::Peers(v)) if !v.is_empty())) {
                report.violate("ro-reply", "ro-responder-value-surfaced", "get_peers yielded peers that only ro=1 replies carried".into());
            }
            if let Some((k, d)) = bad.borrow().clone() {
                report.violate("ro-reply", &k, d);
            }
            // writes: the peers that answered the lookups normally flag their replies to the store
            // requests ro=1 (acks, or 301s from all of them): those replies count for nothing
            if rng.chance(1, 2) && ro_peers.len() < n_raw {
                let err = if rng.chance(1, 3) { Some(*rng.pick(&[301i64, 302])) } else { None };
                for i in 0..n_raw {
                    rawnet.with_peer(i, |p| {
                        p.ro_put = true;
                        if let Some(c) = err {
                            p.put_reply = PutReply::Error(c);
                        }
                    });
                }
                let wkind = rng.below(3);
                let w = match wkind {
                    0 => sim.put_immutable(reader, b"written through ro-flagged acks".to_vec()),
                    1 => sim.put_mutable(reader, dht::MutableItem::new(&key, b"w", 77, Some(b"w")), None),
                    _ => sim.announce_peer(reader, rng.id(), Some(4444)),
                };
                let done = sim.run_ops(&[w], sim.now() + 120 * SEC);
                let (ok, conc) = sim.with_op(w, |o| match &o.outcome {
                    Some(Outcome::PutImmutable(r)) | Some(Outcome::Announce(r)) => (r.is_ok(), false),
                    Some(Outcome::PutMutable(r)) => (r.is_ok(), matches!(r, Err(dht::errors::PutMutableError::Concurrency(_)))),
                    _ => (false, false),
                });
                if !done {
                    report.violate("hang", "put-did-not-return", "a put answered only by ro-flagged replies did not return within 120 s".into());
                } else if ok {
                    report.violate("ro-reply", "ro-flagged-ack-counted", format!("write kind {wkind} returned Ok although every reply to its store requests was flagged ro=1"));
                } else if conc {
                    report.violate("ro-reply", "ro-flagged-error-counted", format!("put_mutable failed with a concurrency error carried only by replies flagged ro=1 ({err:?})"));
                }
                report.probe("writes_answered_with_ro_flag", 1);
            }
            report.nontrivial = !ro_peers.is_empty();
            report.probe("family_ro_replies", 1);
            plan.push_str(&format!(" ro_peers={ro_peers:?}"));
        }
        // ------------------------------------------------------------------ adaptive mode
        _ => {
            // 0 reachable public address, 1 behind a restricted-cone NAT, 2 wrong address votes,
            // 3 reachable and confirmed at first, then (before the first refresh) every peer starts
            //   reporting another, unreachable address
            let situation = rng.below(4);
            // reachable nodes, 1 run in 3: the path back to the node's own address is slow (a self-ping takes
            // 0.6 - 3 s, longer than the request timeout): the confirmation counts whenever it arrives
            if situation == 0 && rng.chance(1, 3) {
                let mut n = sim.net();
                n.self_path_extra_ms = rng.range(600, 3000);
                sim.set_net(n);
                report.probe("adaptive_with_slow_self_path", 1);
            }
            let mut spec = NodeSpec::new(pub_ip(&mut rng), 6881);
            spec.bootstrap = addrs.iter().map(|a| a.to_string()).collect();
            if rng.chance(1, 4) {
                spec.clock_ppm = rng.range(0, 40_000) as i64 - 20_000;
            }
            if situation == 1 {
                let nat = sim.add_nat(spec.ip);
                spec.ip = Ipv4Addr::new(192, 168, 1, 10);
                spec.nat = Some(nat);
            }
            if situation == 2 {
                let wrong = SocketAddrV4::new(pub_ip(&mut rng), 6881);
                let liars = n_raw / 2 + 1;
                for i in 0..liars {
                    rawnet.with_peer(i, |p| p.ip_vote = Some(wrong));
                }
            }
            // a reachable node may have its public IP configured (it still has to confirm the address)
            if situation == 0 && rng.chance(1, 3) {
                spec.public_ip = Some(spec.ip);
                report.probe("adaptive_with_configured_public_ip", 1);
            }
            // reachable nodes, 1 run in 3 (own random stream): *confused at first* - for the first 20..280 s every
            // peer reports a wrong, unreachable address (a NAT binding that went away, a confused or lying first
            // responder); then they report the true one and a lookup brings the new votes. The true address is
            // probed when it is voted, however recently another address was probed.
            let mut crng = Rng::new(crate::rng::key(ctx.seed, &[crate::rng::tag("c18-confused-first")]));
            let confused_until: Option<u64> = if situation == 0 && crng.chance(1, 3) { Some(crng.range(20, 280) * SEC) } else { None };
            // reachable nodes, 1 run in 3: *most advertised peers are dead* - more than half of the scripted peers have
            // crashed before the node starts; the bootstrap list and the live peers still advertise them. The live
            // ones all report the node's true address.
            if situation == 0 && confused_until.is_none() && crng.chance(1, 3) && rawnet.len() >= 3 {
                let n_dead = rawnet.len() / 2 + 1;
                for i in (rawnet.len() - n_dead)..rawnet.len() {
                    rawnet.with_peer(i, |p| p.silent = true);
                }
                report.probe("adaptive_with_most_advertised_peers_dead", 1);
            }
            // reachable nodes, 1 run in 3: *a previous life* - the node's address is still listed by its peers under
            // the id of an earlier incarnation (it ran there as a server until a moment ago), so its own lookups
            // are pointed at its own address
            if situation == 0 && crng.chance(1, 3) {
                let own = SocketAddrV4::new(spec.ip, 6881);
                let old_id = crng.id();
                for i in 0..rawnet.len() {
                    rawnet.with_peer(i, |p| p.extra_nodes.push((old_id, own)));
                }
                report.probe("adaptive_with_own_address_listed_under_an_old_id", 1);
            }
            if confused_until.is_some() {
                let wrong = SocketAddrV4::new(pub_ip(&mut crng), 6881);
                for i in 0..rawnet.len() {
                    rawnet.with_peer(i, |p| p.ip_vote = Some(wrong));
                }
                report.probe("adaptive_wrong_address_voted_first", 1);
            }
            let switch_at = rng.range(60, 700) * SEC;
            let wrong_later = SocketAddrV4::new(pub_ip(&mut rng), 6881);
            let explicit_server = rng.chance(1, 6);
            spec.server_mode = explicit_server;
            let node = sim.add_node(spec);
            let minutes = rng.range(31, 50);
            if let Some(until) = confused_until {
                let rn = rawnet.clone();
                let t0 = sim.now();
                let t = crng.id();
                sim.at(t0 + until, move |sim| {
                    for i in 0..rn.len() {
                        rn.with_peer(i, |p| p.ip_vote = None);
                    }
                    sim.find_node(node, t);
                });
            }
            if situation == 3 {
                let rn = rawnet.clone();
                let t0 = sim.now();
                sim.at(t0 + switch_at, move |sim| {
                    for i in 0..rn.len() {
                        rn.with_peer(i, |p| p.ip_vote = Some(wrong_later));
                    }
                    // a lookup whose answers carry the new votes
                    sim.find_node(node, [0x44; 20]);
                });
            }
            // somebody else on the IP the peers report (another host behind that address, another port)
            // pings the node now and then: that is not the node's own ping coming back
            if situation == 2 || situation == 3 {
                let voted_ip = if situation == 2 { rawnet.with_peer(0, |p| p.ip_vote.map(|a| *a.ip())) } else { Some(*wrong_later.ip()) };
                if let Some(ip) = voted_ip {
                    let neighbour = SocketAddrV4::new(ip, 7000 + rng.below(1000) as u16);
                    let _ = sim.add_raw(neighbour, None);
                    let node_addr = sim.node_addr(node);
                    for _ in 0..rng.usize(1, 6) {
                        let at = sim.now() + rng.range(1, minutes * 60) * SEC;
                        let nid = rng.id();
                        sim.at(at, move |sim| {
                            sim.raw_send(neighbour, node_addr, krpc::query(&krpc::tid_bytes(77), "ping", krpc::ping_args(&nid), &krpc::MsgOpts::default()));
                        });
                    }
                    report.probe("pings_from_another_port_of_the_voted_ip", 1);
                }
            }
            // a few lookups along the way
            for _ in 0..rng.usize(0, 5) {
                let at = sim.now() + rng.range(1, minutes * 60) * SEC;
                let t = rng.id();
                sim.at(at, move |sim| {
                    sim.find_node(node, t);
                });
            }
            let mut timeline = vec![];
            let mut t = sim.now();
            let end = t + minutes * 60 * SEC;
            while t < end {
                t += 60 * SEC;
                sim.run_until(t);
                let o = sim.info(node);
                sim.run_ops(&[o], sim.now() + 5 * SEC);
                if let Some(Outcome::Info(i)) = sim.take_outcome(o) {
                    timeline.push((t / (60 * SEC), i.server_mode, i.firewalled, i.public_address));
                }
            }
            let last = timeline.last().cloned();
            let self_ping = sim.with_trace(|tr| tr.iter().any(|d| d.from_host == Some(node) && Krpc::parse(&d.bytes).map(|k| k.query_name() == Some("ping")).unwrap_or(false) && Some(d.dst) == last.and_then(|l| l.3)));
            plan.push_str(&format!(" adaptive situation={situation} explicit_server={explicit_server} minutes={minutes} final={last:?} self_ping_sent={self_ping}"));
            if let Some((_, server_mode, firewalled, public_address)) = last {
                if explicit_server {
                    if !server_mode {
                        report.violate("adaptive", "explicit-server-left-server-mode", "a node configured in server mode is not in server mode".into());
                    }
                } else {
                    match situation {
                        0 => {
                            if public_address != Some(sim.node_addr(node)) {
                                report.violate("adaptive", "public-address-not-learned", format!("after {minutes} min the reachable node reports public_address {public_address:?}, its peers all report {}", sim.node_addr(node)));
                            } else if !self_ping {
                                report.violate("adaptive", "no-self-ping-sent", format!("the node never pinged the address its peers report ({}) to confirm it; after {minutes} min: server_mode={server_mode} firewalled={firewalled}", sim.node_addr(node)));
                            } else if firewalled || !server_mode {
                                report.violate("adaptive", "reachable-node-did-not-become-server", format!("after {minutes} min (two refreshes) the reachable adaptive node has server_mode={server_mode} firewalled={firewalled}"));
                            }
                        }
                        3 => {
                            // the votes changed before the first refresh: the new address was never
                            // confirmed, so the node may not have become a server
                            let at_switch = timeline.iter().find(|x| x.0 * 60 > switch_at / SEC + 120).cloned();
                            if server_mode {
                                report.violate("adaptive", "unreachable-node-became-server", format!("the node confirmed {} at first, {} s later every peer reported the unreachable {wrong_later}; after {minutes} min server_mode={server_mode} firewalled={firewalled} public_address={public_address:?} (state two minutes after the switch: {at_switch:?})", sim.node_addr(node), switch_at / SEC));
                            }
                        }
                        _ => {
                            if server_mode || !firewalled {
                                report.violate("adaptive", "unreachable-node-became-server", format!("situation {} but after {minutes} min server_mode={server_mode} firewalled={firewalled}", if situation == 1 { "NAT" } else { "wrong votes" }));
                            }
                        }
                    }
                }
            }
            // once a server, it must answer requests and stop marking its own requests ro; while a
            // client, the reverse (looked at on the wire, not through Info)
            if let Some((_, server_mode, _, _)) = last {
                let prober = SocketAddrV4::new(pub_ip(&mut rng), 4242);
                let (_, plog) = logging_raw(&sim, prober);
                let node_addr = sim.node_addr(node);
                let reach = if situation == 1 { None } else { Some(node_addr) };
                if let Some(a) = reach {
                    sim.raw_send(prober, a, krpc::query(&krpc::tid_bytes(4242), "ping", krpc::ping_args(&[9u8; 20]), &krpc::MsgOpts::default()));
                }
                let t_probe = sim.now();
                let o = sim.find_node(node, rng.id());
                sim.run_ops(&[o], sim.now() + 30 * SEC);
                sim.run_for(2 * SEC);
                let answered = plog.borrow().iter().any(|(_, from, b)| *from == node_addr && Krpc::parse(b).map(|k| k.is_response()).unwrap_or(false));
                let (ro_reqs, plain_reqs) = sim.with_trace(|tr| {
                    let mut c = (0u64, 0u64);
                    for d in tr.iter().filter(|d| d.from_host == Some(node) && d.t_send >= t_probe) {
                        if let Some(k) = Krpc::parse(&d.bytes) {
                            if k.is_query() {
                                if k.ro {
                                    c.0 += 1;
                                } else {
                                    c.1 += 1;
                                }
                            }
                        }
                    }
                    c
                });
                if server_mode {
                    if reach.is_some() && !answered {
                        report.violate("adaptive", "server-mode-node-does-not-answer", format!("Info reports server_mode=true but a ping to {node_addr} got no reply (situation {situation}, explicit_server={explicit_server})"));
                    } else if ro_reqs > 0 {
                        report.violate("adaptive", "server-mode-node-marks-requests-ro", format!("Info reports server_mode=true but {ro_reqs} of its requests still carry ro=1 (situation {situation}, explicit_server={explicit_server})"));
                    }
                } else if answered {
                    report.violate("adaptive", "client-mode-node-answers", format!("Info reports server_mode=false but the node answered a ping (situation {situation})"));
                } else if plain_reqs > 0 {
                    report.violate("adaptive", "client-mode-node-requests-not-ro", format!("Info reports server_mode=false but {plain_reqs} of its requests lack ro=1 (situation {situation})"));
                }
                report.probe("wire_mode_probes", 1);
            }
            if let Some(d) = sim.died(node) {
                report.violate("node-died", "adaptive-node-panicked", format!("node died: {d}"));
            }
            report.nontrivial = true;
            report.probe("family_adaptive", 1);
            report.probe(&format!("adaptive_situation_{situation}"), 1);
            if sim.stats().nat_drops > 0 {
                report.probe("nat_drops_observed", 1);
            }
        }
    }
    report.sample = Some(json!({"scenario": plan}));
    report.plan_dump = Some(plan);
    finish(&sim, report)
}

pub fn property() -> Property {
    Property {
        id: "C18",
        run,
        budget: |t| match t {
            Tier::Quick => 10000,
            Tier::Thorough => 200_000,
        },
        wall_cap_s: |t| match t {
            Tier::Quick => 70.0,
            Tier::Thorough => 1500.0,
        },
        info: || PropInfo {
            floors: vec![],
            rule: "four scenario families, one per run: (0) a client-mode node receives 10..60 requests of every kind (well-formed and from the hostile catalogue) and performs a get / put / announce itself: it must emit no response or error, keep its stores empty, and mark every request ro=1; (1) a server (first node or bootstrapped) receives 5..50 requests from read-only and normal requesters plus a real client: no read-only requester may ever be in a table snapshot, a first node must learn normal requesters, server requests are not marked ro; (2) a reader among scripted peers half of which answer with ro=1 while holding the only values and a marker address vote: nothing from them may surface, enter the table or the vote; (3) adaptive mode over 31..50 virtual minutes: reachable public address (self-ping sent, firewalled cleared, server mode after a refresh), restricted-cone NAT without hairpin, majority of wrong address votes (both must stay client), explicit server_mode. Non-trivial = the family's trigger occurred; distinct = delivery-order hash".into(),
            assumptions: vec!["NAT model: restricted cone, no hairpinning".into()],
        },
    }
}
