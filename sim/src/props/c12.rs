//! C12 — routing table structural and Sybil-limit invariants, checked on every snapshot of real
//! nodes whose tables are driven through the real protocol path by raw peers with adversarial
//! ids and addresses, across the 15-minute staleness boundary and across a re-key.

use std::cell::RefCell;
use std::collections::{BTreeMap, BTreeSet};
use std::net::{Ipv4Addr, SocketAddrV4};
use std::rc::Rc;

use dht::verif::{Snapshot, TableSnap};
use serde_json::json;

use crate::bencode::Value;
use crate::krpc::{self, Id, MsgOpts};
use crate::props::common::*;
use crate::props::{PropInfo, Property, Report, RunCtx, Tier};
use crate::rawnet::*;
use crate::rng::Rng;
use crate::sim::*;

const STALE_NS: u64 = 15 * 60 * SEC;

#[derive(Default)]
pub struct TableChecker {
    /// previous snapshot per (host, table index): (own id, buckets, time on the node's clock)
    prev: BTreeMap<(HostId, usize), (Id, Vec<(u8, Vec<(Id, SocketAddrV4, u64)>)>, u64)>,
    pub violation: Option<(String, String)>,
    /// tables that were re-keyed: re-insertion under the new id does not keep the buckets in
    /// least-recently-seen order, so afterwards the head need not be the oldest entry
    rekeyed: BTreeSet<(HostId, usize)>,
    pub full_buckets_seen: u64,
    pub stale_replacements: u64,
    pub stale_removals: u64,
    pub rekeys: u64,
    pub updates_same_id: u64,
    pub max_bucket: usize,
    pub shared_ip_entries: u64,
}

impl TableChecker {
    fn fail(&mut self, key: &str, detail: String) {
        if self.violation.is_none() {
            self.violation = Some((key.to_string(), detail));
        }
    }

    pub fn check(&mut self, host: HostId, now_local: u64, snap: &Snapshot) {
        for (ti, t) in [&snap.routing_table, &snap.signed_peers_routing_table].into_iter().enumerate() {
            self.check_table(host, ti, now_local, t);
        }
    }

    fn check_table(&mut self, host: HostId, ti: usize, now_local: u64, t: &TableSnap) {
        let name = if ti == 0 { "routing table" } else { "signed-peers routing table" };
        let mut ids = BTreeSet::new();
        let mut count = 0usize;
        let mut by_ip: BTreeMap<Ipv4Addr, Vec<(Id, bool)>> = BTreeMap::new();
        for (key, nodes) in &t.buckets {
            self.max_bucket = self.max_bucket.max(nodes.len());
            if nodes.len() > 20 {
                self.fail("bucket-over-capacity", format!("{name}: bucket {key} holds {} entries", nodes.len()));
            }
            if nodes.len() == 20 {
                self.full_buckets_seen += 1;
            }
            for n in nodes {
                count += 1;
                if n.id == t.id {
                    self.fail("own-id-in-table", format!("{name} contains the node's own id"));
                }
                if !ids.insert(n.id) {
                    self.fail("duplicate-id", format!("{name} contains id {} twice", hex8(&n.id)));
                }
                let d = krpc::distance(&t.id, &n.id);
                if d != *key {
                    self.fail("wrong-bucket", format!("{name}: entry {} sits in bucket {key} but its distance to the table id is {d}", hex8(&n.id)));
                }
                by_ip.entry(*n.address.ip()).or_default().push((n.id, krpc::bep42_secure(&n.id, *n.address.ip())));
            }
        }
        if t.size != count || t.iterated != count {
            self.fail("size-disagrees", format!("{name}: size()={} nodes().count()={} but the buckets hold {count}", t.size, t.iterated));
        }
        if t.is_empty != (count == 0) {
            self.fail("is-empty-disagrees", format!("{name}: is_empty()={} with {count} entries", t.is_empty));
        }
        for (ip, list) in &by_ip {
            if list.len() > 1 {
                self.shared_ip_entries += 1;
            }
            let insecure = list.iter().filter(|x| !x.1).count();
            if insecure > 1 {
                self.fail("two-insecure-nodes-on-one-ip", format!("{name}: {insecure} non-BEP42-secure entries share IP {ip}"));
            }
            let mut prefixes = BTreeSet::new();
            for (id, secure) in list {
                if *secure && !prefixes.insert([id[0], id[1], id[2] & 0xf8]) {
                    self.fail("two-secure-nodes-same-prefix-on-one-ip", format!("{name}: two secure entries on IP {ip} share the 21-bit prefix of {}", hex8(id)));
                }
            }
        }
        // transition rules
        let cur: Vec<(u8, Vec<(Id, SocketAddrV4, u64)>)> = t.buckets.iter().map(|(k, ns)| (*k, ns.iter().map(|n| (n.id, n.address, n.age_ns)).collect())).collect();
        if let Some((pid, pb, ptime)) = self.prev.get(&(host, ti)).cloned() {
            if pid != t.id {
                self.rekeys += 1;
                self.rekeyed.insert((host, ti));
            } else {
                let elapsed = now_local.saturating_sub(ptime);
                let cur_ids: BTreeMap<Id, (SocketAddrV4, u64)> = cur.iter().flat_map(|(_, ns)| ns.iter().map(|n| (n.0, (n.1, n.2)))).collect();
                let prev_ids: BTreeSet<Id> = pb.iter().flat_map(|(_, ns)| ns.iter().map(|n| n.0)).collect();
                let mut vanished_total = 0usize;
                for (k, ns) in &pb {
                    let gone: Vec<(usize, &(Id, SocketAddrV4, u64))> = ns.iter().enumerate().filter(|(_, n)| !cur_ids.contains_key(&n.0)).collect();
                    vanished_total += gone.len();
                    for (idx, n) in &gone {
                        let age_now = n.2 + elapsed;
                        if age_now <= STALE_NS {
                            self.fail(
                                "fresh-node-evicted",
                                format!("{name}: entry {} @ {} last seen {:.1} min ago disappeared from bucket {k} (not stale, no re-key)", hex8(&n.0), n.1, age_now as f64 / (60.0 * SEC as f64)),
                            );
                        }
                        // replacement in a full bucket takes the least recently seen entry (the head)
                        let newcomers = cur.iter().find(|(ck, _)| ck == k).map(|(_, cn)| cn.iter().filter(|c| !prev_ids.contains(&c.0)).count()).unwrap_or(0);
                        if ns.len() == 20 && gone.len() == 1 && newcomers == 1 {
                            self.stale_replacements += 1;
                            let oldest = ns.iter().map(|x| x.2).max().unwrap_or(0);
                            if (*idx != 0 || n.2 < oldest) && !self.rekeyed.contains(&(host, ti)) {
                                self.fail(
                                    "replaced-entry-not-least-recently-seen",
                                    format!("{name}: a full bucket {k} replaced its entry at position {idx} (last seen {:.1} min ago) although its least recently seen entry was last seen {:.1} min ago", n.2 as f64 / (60.0 * SEC as f64), oldest as f64 / (60.0 * SEC as f64)),
                                );
                            }
                        } else {
                            self.stale_removals += 1;
                        }
                    }
                    // same id re-added: last_seen refreshed / address updated
                    for n in ns {
                        if let Some((addr, age)) = cur_ids.get(&n.0) {
                            if *addr != n.1 || *age < n.2 {
                                self.updates_same_id += 1;
                            }
                        }
                    }
                }
                let _ = vanished_total;
            }
        }
        self.prev.insert((host, ti), (t.id, cur, now_local));
    }
}

fn id_at_distance(own: &Id, d: u8, rng: &mut Rng) -> Id {
    // flip bit (160 - d) counted from the most significant, randomise everything below
    let mut id = *own;
    if d == 0 {
        return id;
    }
    let bit = 160 - d as usize;
    let rnd = rng.id();
    for i in 0..160 {
        if i > bit {
            let (byte, off) = (i / 8, 7 - i % 8);
            id[byte] = (id[byte] & !(1 << off)) | (rnd[byte] & (1 << off));
        }
    }
    let (byte, off) = (bit / 8, 7 - bit % 8);
    id[byte] ^= 1 << off;
    id
}

fn run(ctx: &RunCtx) -> Report {
    let mut report = Report::default();
    let mut rng = Rng::new(ctx.seed);
    let net = NetCfg {
        latency_min_us: 500,
        latency_max_us: rng.range(2_000, 50_000),
        ..NetCfg::default()
    };
    let sim = Sim::new(ctx.seed, net);
    // after every consumed datagram (adds happen there) and every 40th step (maintenance rounds)
    sim.set_snap_mode(SnapMode::OnConsume);
    sim.set_snap_every(40);
    let public = rng.chance(1, 2);
    let checker: Rc<RefCell<TableChecker>> = Default::default();
    // victim: a first node (adds find_node requesters), or a node bootstrapped into scripted peers
    let first_node = rng.chance(2, 3);
    // refresh rule (independent of the entry's own timestamp): when the step consumed a find_node request
    // that makes the server (re-)add its sender, an entry with that id and address that is in the table
    // after the step has just been seen - its age is zero
    let refresh_checks: Rc<RefCell<u64>> = Default::default();
    {
        let c = checker.clone();
        let sim2 = sim.clone();
        let rc = refresh_checks.clone();
        let mut seen_consumed = 0u64;
        sim.set_observer(Box::new(move |h, _now, s| {
            let local = sim2.host_clock(h);
            c.borrow_mut().check(h, local, s);
            let consumed = sim2.consumed(h);
            if consumed == seen_consumed + 1 {
                if let Some((src, bytes)) = sim2.last_consumed(h) {
                    if let Some(k) = krpc::Krpc::parse(&bytes) {
                        if k.query_name() == Some("find_node") && !k.ro {
                            if let Some(x) = k.id() {
                                let signed_capable = k.version.as_deref() == Some(&krpc::VERSION_RS6[..]);
                                for (ti, t, applies) in [(0, &s.routing_table, first_node), (1, &s.signed_peers_routing_table, signed_capable)] {
                                    if !applies {
                                        continue;
                                    }
                                    for (_, b) in &t.buckets {
                                        for n in b {
                                            if n.id == x && n.address == src {
                                                *rc.borrow_mut() += 1;
                                                if n.age_ns > SEC {
                                                    c.borrow_mut().fail(
                                                        "re-added-node-not-refreshed",
                                                        format!("{}: the server just handled a find_node request of {} @ {src} and holds that entry, but its last-seen age is {:.1} min (a re-added known node must be refreshed)", if ti == 0 { "routing table" } else { "signed-peers routing table" }, hex8(&x), n.age_ns as f64 / (60.0 * SEC as f64)),
                                                    );
                                                }
                                            }
                                        }
                                    }
                                }
                            }
                        }
                    }
                }
            }
            seen_consumed = consumed;
        }));
    }
    let victim_ip = if public { pub_ip(&mut rng) } else { priv_ip(1) };
    let rawnet = RawNet::new();
    let n_script = rng.usize(3, 40);
    let mut spec = NodeSpec::new(victim_ip, 6881).server();
    if public && rng.chance(1, 2) {
        spec.public_ip = Some(victim_ip);
    }
    if rng.chance(1, 4) {
        spec.clock_ppm = rng.range(0, 60_000) as i64 - 30_000;
    }
    let victim_addr = spec.addr();
    // scripted peers answer pings and lookups; their ids are fixed after the victim's id is known
    let mut script_addrs = vec![];
    let ip_pool: Vec<Ipv4Addr> = (0..rng.usize(2, 12)).map(|i| if public { pub_ip(&mut rng) } else { priv_ip(300 + i) }).collect();
    for i in 0..n_script {
        let ip = if rng.chance(1, 2) { ip_pool[rng.usize(0, ip_pool.len() - 1)] } else if public { pub_ip(&mut rng) } else { priv_ip(400 + i) };
        script_addrs.push(SocketAddrV4::new(ip, 7000 + i as u16));
    }
    if !first_node {
        spec.bootstrap = script_addrs.iter().take(2).map(|a| a.to_string()).collect();
    }
    // the victim's id is only known once it runs: start it, read it, then create the peers
    let victim = sim.add_node(spec);
    sim.run_for(MS);
    let own: Id = sim.snapshot(victim).map(|s| s.id).unwrap_or([0; 20]);
    let distances: Vec<u8> = match rng.below(3) {
        0 => vec![160],
        1 => vec![160, 159],
        _ => vec![160, 159, 158, 150, 120],
    };
    for a in &script_addrs {
        let d = *rng.pick(&distances);
        let mut id = id_at_distance(&own, d, &mut rng);
        if public && rng.chance(1, 2) {
            // BEP42-valid id for its address (the prefix fixes the bucket: distance 160 or 159 typically)
            id = krpc::bep42_id(*a.ip(), id);
        }
        let mut p = Peer::new(id, *a);
        p.k = 20;
        p.silent = rng.chance(1, 4); // some never answer: they age
        rawnet.add(&sim, p);
    }
    for i in 0..n_script {
        rawnet.with_peer(i, |p| p.knows = (0..n_script).collect());
    }

    // the adversarial request stream: find_node requests with chosen (claimed id, source address)
    let n_events = match ctx.tier {
        Tier::Quick => rng.usize(20, 150),
        Tier::Thorough => rng.usize(20, 400),
    };
    report.elements = n_events;
    let span = rng.range(1, 45) * 60 * SEC;
    let mut sybil_ids: Vec<Id> = vec![];
    let mut sibling_events = 0u64;
    let mut plan = vec![format!("victim {victim_addr} first_node={first_node} public={public} scripted={n_script} distances={distances:?} span_min={}", span / (60 * SEC))];
    let t0 = sim.now();
    let rekey_at = if public && rng.chance(1, 2) { Some(t0 + rng.range(1, span / SEC) * SEC) } else { None };
    // 1 run in 3 (own random stream): *restarted peers* - at one to three instants some scripted peers that are
    // (probably) in the table come back under a new random id on the same address, and go on answering the
    // victim's maintenance pings and lookups under that id
    let mut prng = Rng::new(crate::rng::key(ctx.seed, &[crate::rng::tag("c12-restarted-peers")]));
    if n_script > 0 && prng.chance(1, 3) {
        for _ in 0..prng.usize(1, 3) {
            let at = t0 + prng.range(0, span / SEC + 15 * 60) * SEC;
            let rn = rawnet.clone();
            let victims: Vec<(usize, Id)> = (0..prng.usize(1, 3)).map(|_| (prng.usize(0, n_script - 1), { let d = *prng.pick(&distances); id_at_distance(&own, d, &mut prng) })).collect();
            sim.at(at, move |_sim| {
                for (i, nid) in &victims {
                    rn.with_peer(*i, |p| p.id = *nid);
                }
            });
        }
        report.probe("runs_with_peers_restarting_under_a_new_id", 1);
    }
    for i in 0..n_events {
        let mut r = Rng::new(crate::rng::key(ctx.seed, &[crate::rng::tag("ev"), i as u64]));
        if !ctx.enabled(i) {
            continue;
        }
        // bursts: most events cluster in a few windows, the rest spread over the span
        let at = t0 + if r.chance(2, 3) { (r.below(4) * span / 4) + r.range(0, 20_000) * MS } else { r.range(0, span / MS) * MS };
        let d = *r.pick(&distances);
        let id = match r.below(5) {
            0 if !sybil_ids.is_empty() => sybil_ids[r.usize(0, sybil_ids.len() - 1)], // repeated id, maybe other IP/port
            1 => own,                                                                   // the victim's own id
            _ => {
                let id = id_at_distance(&own, d, &mut r);
                sybil_ids.push(id);
                id
            }
        };
        let ip = match r.below(4) {
            0 | 1 => ip_pool[r.usize(0, ip_pool.len() - 1)], // many ids per IP
            _ => {
                if public {
                    pub_ip(&mut r)
                } else {
                    priv_ip(10_000 + r.usize(0, 60_000))
                }
            }
        };
        let id = if public && r.chance(1, 3) { krpc::bep42_id(ip, id) } else { id };
        let mut src = SocketAddrV4::new(ip, r.range(1024, 1030) as u16);
        // siblings behind the victim's own public IP whose BEP42-valid ids share the victim's 21-bit
        // prefix (same r & 7) and diverge from its id only later: different buckets, one IP, one prefix
        let (id, sibling) = if public && krpc::bep42_secure(&own, victim_ip) && r.chance(1, 5) {
            let mut sid = own;
            let bit = r.usize(21, 150);
            let rnd = r.id();
            for i in (bit + 1)..157 {
                let (byte, off) = (i / 8, 7 - i % 8);
                sid[byte] = (sid[byte] & !(1 << off)) | (rnd[byte] & (1 << off));
            }
            sid[bit / 8] ^= 1 << (7 - bit % 8);
            src = SocketAddrV4::new(victim_ip, r.range(2000, 2010) as u16);
            (sid, true)
        } else {
            (id, false)
        };
        if sibling {
            sibling_events += 1;
        }
        let version = if r.chance(3, 4) { Some(krpc::VERSION_RS6.to_vec()) } else { Some(b"LT\x01\x02".to_vec()) };
        let opts = MsgOpts {
            version,
            ro: if r.chance(1, 8) { Some(1) } else { None },
            ip: None,
        };
        // find_node whose target is the claimed id (what a joining node sends)
        let bytes = krpc::query(&krpc::tid_bytes(i as u32), "find_node", Value::dict(vec![("id", Value::bytes(&id)), ("target", Value::bytes(&id))]), &opts);
        if i < 30 {
            plan.push(format!("ev[{i}] t={:.1}s find_node claimed id {} (distance {}) from {src}", at as f64 / SEC as f64, hex8(&id), krpc::distance(&own, &id)));
        }
        sim.at(at, move |sim| sim.raw_send(src, victim_addr, bytes));
    }
    // lookups by the victim: scripted peers answer and get added / refreshed through the response path
    let n_lookups = rng.usize(0, 6);
    for _ in 0..n_lookups {
        let at = t0 + rng.range(0, span / MS) * MS;
        let t = rng.id();
        sim.at(at, move |sim| {
            sim.find_node(victim, t);
        });
    }
    // re-key: votes for the true address arrive with lookups; then a ping from the node's own address
    if let Some(at) = rekey_at {
        let ping = krpc::query(&krpc::tid_bytes(999_999), "ping", krpc::ping_args(&own), &MsgOpts::default());
        sim.at(at, move |sim| {
            let op = sim.find_node(victim, [0x33; 20]);
            let _ = op;
        });
        sim.at(at + 5 * SEC, move |sim| sim.raw_send(victim_addr, victim_addr, ping));
        plan.push(format!("re-key attempt at t={:.1}s (lookup for address votes, then self-ping)", at as f64 / SEC as f64));
    }
    sim.run_until(t0 + span + 21 * 60 * SEC);

    if let Some(d) = sim.died(victim) {
        report.violate("node-died", "victim-actor-panicked", format!("victim died: {d}"));
    }
    let c = checker.borrow();
    if let Some((key, detail)) = &c.violation {
        report.violate("table-invariant", key, detail.clone());
    }
    report.probe("same_ip_same_prefix_sibling_requests", sibling_events);
    report.probe("refresh_rule_checks", *refresh_checks.borrow());
    report.probe("full_bucket_snapshots", c.full_buckets_seen.min(1_000_000));
    report.probe("stale_head_replacements", c.stale_replacements);
    report.probe("stale_removals", c.stale_removals);
    report.probe("rekeys_observed", c.rekeys);
    report.probe("same_id_updates", c.updates_same_id);
    report.probe("snapshots_with_shared_ip", c.shared_ip_entries.min(1_000_000));
    if c.max_bucket == 20 {
        report.probe("runs_reaching_full_bucket", 1);
    }
    report.nontrivial = c.max_bucket >= 10 || c.stale_removals > 0;
    report.plan_dump = Some(plan.join("\n"));
    report.sample = Some(json!({"plan": plan.iter().take(6).collect::<Vec<_>>(), "max_bucket": c.max_bucket, "stale_replacements": c.stale_replacements, "rekeys": c.rekeys}));
    drop(c);
    finish(&sim, report)
}

pub fn property() -> Property {
    Property {
        id: "C12",
        run,
        budget: |t| match t {
            Tier::Quick => 3000,
            Tier::Thorough => 150_000,
        },
        wall_cap_s: |t| match t {
            Tier::Quick => 75.0,
            Tier::Thorough => 1500.0,
        },
        info: || PropInfo {
            floors: vec![],
            rule: "one run = a real server (a first node that adds find_node requesters, or a node bootstrapped into 3..40 scripted peers of which a quarter never answer) on a private or public plan, optional clock skew; 20..150 (thorough ..400) find_node requests with chosen claimed ids (at distances {160} / {160,159} / {160,159,158,150,120} from the victim's id, repeated ids, the victim's own id, BEP42-valid and invalid ids) from chosen addresses (a pool of 2..12 shared IPs, ports 1024..1030, fresh IPs), in bursts over 1..45 virtual minutes plus 21 minutes of ageing; 0..6 lookups by the victim; on public plans optionally a re-key (address votes, then a ping from the node's own address). Every snapshot of both tables is checked (structure, per-IP limits) and every pair of consecutive snapshots (a vanished entry must be stale or the table re-keyed; a full bucket replaces only its head). Non-trivial = a bucket reached 10+ entries or stale removals happened; distinct = delivery-order hash".into(),
            assumptions: vec!["entry ages are read from the snapshot on the node's own (possibly skewed) clock".into()],
        },
    }
}
