//! C16 — get_mutable_most_recent returns the newest item seen, for every arrival order.

use std::net::SocketAddrV4;

use serde_json::json;

use crate::krpc::{self, Item, Krpc};
use crate::props::common::*;
use crate::props::{PropInfo, Property, Report, RunCtx, Tier};
use crate::rawnet::*;
use crate::rng::Rng;
use crate::sim::*;

fn run(ctx: &RunCtx) -> Report {
    let mut report = Report::default();
    let mut rng = Rng::new(ctx.seed);
    let net = NetCfg {
        latency_min_us: 500,
        latency_max_us: 5_000,
        ..NetCfg::default()
    };
    let sim = Sim::new(ctx.seed, net);
    sim.set_snap_mode(SnapMode::Off);
    let rawnet = RawNet::new();
    // 1 run in 6: a long stream (more than 20 replicas, all in the bootstrap list, so all are asked)
    let long_stream = rng.chance(1, 6);
    // every 3rd run is *enumerated*: (number of items 2..6) x (seq pattern) x (arrival permutation) x
    // (API flavour) decoded from the run index, so a batch walks all arrival orders of up to 6 items
    let enumerated = if ctx.index % 3 == 1 { Some(decode_enumerated(ctx.index / 3)) } else { None };
    let long_stream = long_stream && enumerated.is_none();
    // 1 plain run in 5 (own random stream): the *late holder* family - the replica with the newest item answers
    // only after 0.52..1.3 s, later than the request timeout, while a chain of relays (each listing the next
    // relay and a dead contact, for this target only) keeps the lookup running. The node accepts such an
    // answer by design as long as the lookup is alive, so the item was "delivered by the lookup".
    let mut lrng = Rng::new(crate::rng::key(ctx.seed, &[crate::rng::tag("c16-late-holder")]));
    let late_family = enumerated.is_none() && !long_stream && lrng.chance(1, 5);
    let n = match &enumerated {
        Some(e) => e.n,
        None if long_stream => rng.usize(21, 40),
        None => rng.usize(1, 8),
    };
    let key = krpc::signing_key(rng.bytes(32).try_into().unwrap());
    let pk = key.verifying_key().to_bytes();
    let salt: Option<Vec<u8>> = if rng.chance(1, 2) { Some(b"s".to_vec()) } else { None };
    let target = krpc::mutable_target(&pk, salt.as_deref());
    // seq patterns with gaps, duplicates and equal-seq-different-value ties
    let pattern = rng.below(6);
    let values: [&[u8]; 6] = [b"aaa", b"zzz", b"mmm", b"b", b"zz", b"zzzz"];
    let mut items: Vec<Option<Item>> = vec![];
    for i in 0..n {
        if !ctx.enabled(i) {
            items.push(None);
            continue;
        }
        if let Some(e) = &enumerated {
            let (seq, v): (i64, &[u8]) = match e.pattern {
                0 => (i as i64 + 1, values[i % 4]),                   // all distinct
                1 => ((i / 2) as i64 + 1, values[i % 4]),             // pairs of equal seq, different values
                2 => (7, values[i]),                                  // all equal seq: pure tie-break
                3 => (if i == 0 { 1000 } else { 1 }, values[i % 2]),  // one maximum among equal low seqs
                4 => ((i.min(n - 2)) as i64 + 1, values[i.min(n - 2) % 4]), // the maximum delivered twice (identical copies)
                5 => (i64::MIN, values[i]),                           // all at the smallest legal seq
                _ => (EXTREME_SEQS[i % EXTREME_SEQS.len()], values[i % 4]), // boundary seqs, all distinct
            };
            items.push(Some(Item::signed(&key, salt.as_deref(), seq, v)));
            continue;
        }
        let seq = match pattern {
            0 => i as i64,                       // ascending by peer index (arrival order is shuffled by delays)
            1 => (n - i) as i64 * 3,             // gaps
            2 => rng.range(1, 3) as i64,         // many duplicates / ties
            3 => 7,                              // all equal seq: tie-break on value
            4 => rng.range(0, 1000) as i64,
            _ => *rng.pick(EXTREME_SEQS),        // boundary values of the i64 range, negative seqs
        };
        let v = if pattern == 2 || pattern == 3 { values[rng.usize(0, 3)] } else { values[i % 4] };
        if rng.chance(1, 8) {
            items.push(None); // this replica holds nothing
        } else {
            items.push(Some(Item::signed(&key, salt.as_deref(), seq, v)));
        }
    }
    report.elements = n;
    let mut addrs = vec![];
    for (i, it) in items.iter().enumerate() {
        let addr = SocketAddrV4::new(priv_ip(20 + i), 6881);
        let mut p = Peer::new(rng.id(), addr);
        p.k = 20;
        p.delay = rng.range(0, 150) * MS;
        if let Some(e) = &enumerated {
            // arrival rank decided by the permutation: 25 ms apart, link jitter is below 5 ms
            p.delay = (1 + e.perm[i] as u64) * 25 * MS;
        }
        if let Some(it) = it {
            p.mutable.insert(target, it.clone());
        }
        rawnet.add(&sim, p);
        addrs.push(addr);
    }
    for i in 0..n {
        rawnet.with_peer(i, |p| p.knows = (0..n).collect());
    }
    // 1 plain run in 6 (own random stream): a *forger* - one more replica answers after the honest ones with the
    // key and signature of an authentic item over a higher seq (or a greater value for the same seq): not an
    // authentic item, so it is not part of what the lookup delivered
    let mut frng = Rng::new(crate::rng::key(ctx.seed, &[crate::rng::tag("c16-forger")]));
    let forger = enumerated.is_none() && !long_stream && !late_family && frng.chance(1, 6);
    if forger {
        if let Some(base) = items.iter().flatten().max_by_key(|it| it.seq) {
            let mut f = base.clone();
            if frng.chance(1, 2) {
                f.seq = f.seq.saturating_add(1 + frng.range(0, 1_000_000) as i64);
            } else {
                f.v = b"zzzzzzzz forged, greater than every authentic value".to_vec();
            }
            let mut p = Peer::new(frng.id(), SocketAddrV4::new(priv_ip(58), 6881));
            p.k = 20;
            p.delay = frng.range(200, 420) * MS;
            p.mutable.insert(target, f);
            let fi = rawnet.add(&sim, p);
            rawnet.with_peer(fi, |p| p.knows = (0..n).collect());
            addrs.push(SocketAddrV4::new(priv_ip(58), 6881));
            report.probe("forger_runs", 1);
        }
    }
    if late_family {
        let m = lrng.usize(3, 7);
        let base = n;
        // relays base..base+m, late holder base+m
        for i in 0..m {
            let mut p = Peer::new(lrng.id(), SocketAddrV4::new(priv_ip(60 + i), 6881));
            p.k = 20;
            p.delay = lrng.range(120, 320) * MS;
            p.extra_nodes.push((lrng.id(), SocketAddrV4::new(priv_ip(90 + i), 6881))); // nobody lives there
            rawnet.add(&sim, p);
        }
        let newest = Item::signed(&key, salt.as_deref(), 5000, b"newest, held by the slow replica");
        let mut l = Peer::new(lrng.id(), SocketAddrV4::new(priv_ip(80), 6881));
        l.k = 20;
        l.delay = lrng.range(520, 1300) * MS;
        l.mutable.insert(target, newest);
        let li = rawnet.add(&sim, l);
        for i in 0..m {
            let mut knows = vec![];
            if i + 1 < m {
                knows.push(base + i + 1);
            }
            if i == 0 {
                knows.push(li);
            }
            rawnet.with_peer(base + i, |p| p.knows = knows);
        }
        rawnet.with_peer(0, |p| p.knows.push(base));
        // relays and the late holder exist for lookups of this target only (the reader's table never holds
        // them, so they are reached one round after the other)
        rawnet.set_hook(Box::new(move |_rctx, _sh, idx, _from, msg: &Krpc| {
            if idx >= base && msg.target() != Some(target) {
                HookResult::Handled
            } else {
                HookResult::Default
            }
        }));
        report.probe("late_holder_runs", 1);
    }
    let mut spec = NodeSpec::new(priv_ip(1), 6881);
    spec.bootstrap = addrs.iter().map(|a| a.to_string()).collect();
    let reader = sim.add_node(spec);
    sim.run_for(2 * SEC);

    let use_sync = if long_stream { rng.chance(1, 2) } else { rng.chance(1, 4) };
    let use_sync = enumerated.as_ref().map(|e| e.sync).unwrap_or(use_sync) && !late_family;
    if enumerated.is_some() {
        report.probe("enumerated_permutation_runs", 1);
    }
    if long_stream {
        report.probe("long_stream_runs", 1);
    }
    let mut result: Option<Option<(i64, Vec<u8>)>> = None;
    // 1 run in 5: the reader itself has a put_mutable for this key in flight; the call then joins
    // that put's lookup and must also see what the lookup has already received
    let with_put = !use_sync && rng.chance(1, 4) && enumerated.is_none() && !late_family;
    let t_put = sim.now();
    let mut put_item: Option<(i64, Vec<u8>)> = None;
    if with_put {
        for i in 0..n {
            if rng.chance(1, 2) {
                rawnet.with_peer(i, |p| p.delay = rng.range(150, 420) * MS);
            }
        }
        let pseq = match rng.below(3) {
            0 => 0,
            1 => rng.range(0, 10) as i64,
            _ => 2000,
        };
        let it = dht::MutableItem::new(&key, b"being put", pseq, salt.as_deref());
        put_item = Some((pseq, b"being put".to_vec()));
        let _ = sim.put_mutable(reader, it, None);
        sim.run_for(rng.range(0, 300) * MS);
        report.probe("put_in_flight_runs", 1);
    }
    // 1 plain async run in 5 (own random stream): *several callers* - two or three further calls for the same key
    // are made 5..80 ms after the first one, before any replica has answered (all replicas take 150..400 ms in
    // these runs): every caller shares the one lookup and must be handed everything it delivers
    let mut mrng = Rng::new(crate::rng::key(ctx.seed, &[crate::rng::tag("c16-several-callers")]));
    let several = !use_sync && !with_put && !late_family && !long_stream && enumerated.is_none() && mrng.chance(1, 5);
    if several {
        for i in 0..n {
            rawnet.with_peer(i, |p| p.delay = mrng.range(150, 400) * MS);
        }
        report.probe("several_callers_runs", 1);
    }
    let mut extra_ops: Vec<OpId> = vec![];
    let t_call = sim.now();
    let mut async_op: Option<OpId> = None;
    if use_sync {
        let salt2 = salt.clone();
        let h = sim.sync_call(reader, move |d| d.get_mutable_most_recent(&pk, salt2.as_deref()).map(|i| (i.seq(), i.value().to_vec())));
        sim.run_for(30 * SEC);
        if let Some(h) = h {
            let t0 = std::time::Instant::now();
            while !h.is_finished() && t0.elapsed().as_secs() < 10 {
                std::thread::yield_now();
            }
            if h.is_finished() {
                match h.join() {
                    Ok(r) => result = Some(r),
                    Err(_) => report.violate("api-panic", "sync-most-recent-panicked", "Dht::get_mutable_most_recent panicked in the caller thread".into()),
                }
            } else {
                report.violate("hang", "sync-most-recent-hang", "Dht::get_mutable_most_recent did not return after 30 s of virtual time".into());
            }
        }
        report.probe("sync_api_runs", 1);
    } else {
        let op = sim.get_mutable_most_recent(reader, pk, salt.clone());
        async_op = Some(op);
        if several {
            for _ in 0..mrng.usize(1, 2) {
                sim.run_for(mrng.range(5, 40) * MS);
                extra_ops.push(sim.get_mutable_most_recent(reader, pk, salt.clone()));
            }
            let all: Vec<OpId> = extra_ops.clone();
            sim.run_ops(&all, sim.now() + 60 * SEC);
        }
        if !sim.run_ops(&[op], sim.now() + 60 * SEC) {
            report.violate("hang", "most-recent-hang", "AsyncDht::get_mutable_most_recent did not return within 60 s".into());
        }
        if let Some(p) = sim.with_op(op, |o| o.panicked.clone()) {
            report.violate("api-panic", "most-recent-panicked", format!("get_mutable_most_recent panicked: {p}"));
        }
        if let Some(Outcome::MostRecent(r)) = sim.take_outcome(op) {
            result = Some(r.map(|i| (i.seq(), i.value().to_vec())));
        }
        report.probe("async_api_runs", 1);
    }

    let t_done = async_op.and_then(|op| sim.with_op(op, |o| o.done_at)).unwrap_or(u64::MAX);
    let forged_seen = std::cell::Cell::new(0u64);
    let late_counted = std::cell::Cell::new(0u64);
    let late_ambiguous = std::cell::Cell::new(false);
    let lookup_active_at_call = std::cell::Cell::new(false);
    let early_items: std::cell::RefCell<Vec<(i64, Vec<u8>)>> = Default::default();
    // delivered items, in arrival order, from the trace (replies that reached the reader in time)
    let reader_addr = sim.node_addr(reader);
    let delivered: Vec<(i64, Vec<u8>)> = sim.with_trace(|tr| {
        let mut reqs: std::collections::BTreeMap<(SocketAddrV4, u32), u64> = std::collections::BTreeMap::new();
        let mut out: Vec<(u64, i64, Vec<u8>)> = vec![];
        let mut late: Vec<(u64, u64, (SocketAddrV4, u32), i64, Vec<u8>)> = vec![];
        for d in tr.iter() {
            if d.t_send < t_put {
                continue;
            }
            let Some(k) = Krpc::parse(&d.bytes) else { continue };
            if d.from_host == Some(reader) && k.is_query() && k.target() == Some(target) {
                reqs.insert((d.dst, k.tid_u32().unwrap_or(0)), d.t_send);
            } else if d.dst == reader_addr && k.is_response() && d.fate == Fate::Delivered {
                if let Some(sent) = reqs.get(&(d.src, k.tid_u32().unwrap_or(0))) {
                    let rtt = d.t_deliver.unwrap() - sent;
                    if let (Some(v), Some(seq)) = (k.bytes_field("v"), k.int_field("seq")) {
                        // only authentic items count as delivered
                        let authentic = match (k.bytes_field("k"), k.bytes_field("sig")) {
                            (Some(kk), Some(sig)) if kk == pk.as_slice() && sig.len() == 64 => krpc::verify(&pk, &krpc::mutable_signable(seq, v, salt.as_deref()), sig.try_into().unwrap()),
                            _ => false,
                        };
                        if !authentic {
                            forged_seen.set(forged_seen.get() + 1);
                        } else if rtt < 500 * MS {
                            out.push((d.t_deliver.unwrap(), seq, v.to_vec()));
                        } else if d.dup_of.is_none() && d.t_deliver.unwrap() <= t_done && t_done != u64::MAX {
                            late.push((d.t_deliver.unwrap(), rtt, (d.src, k.tid_u32().unwrap_or(0)), seq, v.to_vec()));
                        }
                    }
                }
            }
        }
        // late answers: counted when another request of the lookup was certainly pending at their arrival
        // (sent at most 450 ms earlier, unanswered) and the answer is younger than 2 s (certainly retained)
        if !late.is_empty() {
            let mut first_reply: std::collections::BTreeMap<(SocketAddrV4, u32), u64> = std::collections::BTreeMap::new();
            for d in tr.iter() {
                if d.dst != reader_addr || d.fate != Fate::Delivered {
                    continue;
                }
                let Some(k) = Krpc::parse(&d.bytes) else { continue };
                if k.is_query() {
                    continue;
                }
                let key = (d.src, k.tid_u32().unwrap_or(0));
                if reqs.contains_key(&key) {
                    let e = first_reply.entry(key).or_insert(d.t_deliver.unwrap());
                    *e = (*e).min(d.t_deliver.unwrap());
                }
            }
            for (at, rtt, key, seq, v) in late {
                let surely_active = reqs.iter().any(|(k2, sent2)| *k2 != key && *sent2 <= at && at - *sent2 <= 450 * MS && first_reply.get(k2).map(|t| *t > at).unwrap_or(true));
                if surely_active && rtt < 2 * SEC {
                    out.push((at, seq, v));
                    late_counted.set(late_counted.get() + 1);
                } else {
                    late_ambiguous.set(true);
                }
            }
        }
        out.sort_by_key(|o| o.0);
        // was the lookup certainly still active at the call? (a request sent before it is answered after it)
        let mut active = false;
        for d in tr.iter() {
            if let (Some(k), Some(td)) = (Krpc::parse(&d.bytes), d.t_deliver) {
                if d.dst == reader_addr && k.is_response() && d.fate == Fate::Delivered && td > t_call {
                    if let Some(sent) = reqs.get(&(d.src, k.tid_u32().unwrap_or(0))) {
                        if *sent < t_call && td - sent < 450 * MS {
                            active = true;
                        }
                    }
                }
            }
        }
        lookup_active_at_call.set(active);
        let early: Vec<(i64, Vec<u8>)> = out.iter().filter(|o| o.0 <= t_call).map(|o| (o.1, o.2.clone())).collect();
        early_items.replace(early);
        out.into_iter().filter(|o| o.0 > t_call).map(|o| (o.1, o.2)).collect()
    });
    let mut delivered = delivered;
    if forged_seen.get() > 0 {
        report.probe("forged_items_delivered_to_the_reader", forged_seen.get());
    }
    if late_ambiguous.get() {
        // a late answer arrived before the call returned at an instant where the trace cannot tell whether
        // the lookup was still running: not judged
        report.vacuous = true;
        report.probe("late_answer_ambiguous_not_judged", 1);
    } else if late_counted.get() > 0 {
        report.probe("late_answers_that_count", late_counted.get());
        report.probe("runs_with_a_late_answer_that_counts", 1);
    }
    if with_put {
        let early = early_items.borrow().clone();
        if lookup_active_at_call.get() {
            // joined the put's lookup: what that lookup already holds counts, and so does the item being put
            let mut all = early;
            all.extend(delivered.iter().cloned());
            delivered = all;
            report.probe("joined_an_active_lookup_with_put_in_flight", 1);
        } else {
            // cannot tell from outside whether the call joined: not judged
            report.vacuous = true;
        }
    }
    let mut expected = delivered.iter().cloned().max_by(|a, b| a.0.cmp(&b.0).then(a.1.cmp(&b.1)));
    if let (Some(pi), Some(Some(g))) = (&put_item, &result) {
        // the item being put is handed to the caller as well: if it is what came back and it is at
        // least as recent as everything delivered, that is the right answer
        let ge = expected.as_ref().map(|e| (pi.0, &pi.1) >= (e.0, &e.1)).unwrap_or(true);
        if g == pi && ge {
            expected = Some(pi.clone());
        }
    }
    if report.vacuous {
        result = None;
    }
    if let Some(got) = &result {
        match (got, &expected) {
            (None, None) => {}
            (Some(g), Some(e)) => {
                if g.0 != e.0 {
                    let pos = delivered.iter().position(|d| d == e).unwrap_or(0);
                    let key = if pos == 0 { "most-recent-not-max-seq" } else { "most-recent-keeps-earlier-item" };
                    report.violate("most-recent", key, format!("returned seq {} but the lookup delivered seqs {:?} (max {} arrived at position {pos})", g.0, delivered.iter().map(|d| d.0).collect::<Vec<_>>(), e.0));
                } else if g.1 != e.1 {
                    report.violate("most-recent", "most-recent-tie-break", format!("returned value {:?} for seq {} but the greatest delivered value with that seq is {:?}", String::from_utf8_lossy(&g.1), g.0, String::from_utf8_lossy(&e.1)));
                }
            }
            (None, Some(e)) => report.violate("most-recent", "most-recent-none", format!("returned None although items were delivered (max seq {})", e.0)),
            (Some(g), None) => report.violate("most-recent", "most-recent-phantom", format!("returned seq {} although no item was delivered", g.0)),
        }
    }
    // the further callers of the same lookup got the same answer
    if several && report.violation.is_none() {
        for (i, o) in extra_ops.iter().enumerate() {
            if !sim.op_done(*o) {
                report.violate("hang", "most-recent-hang", format!("caller {} of the shared lookup did not return within 60 s", i + 2));
                break;
            }
            if let Some(Outcome::MostRecent(r)) = sim.take_outcome(*o) {
                let got = r.map(|i| (i.seq(), i.value().to_vec()));
                if got != expected {
                    report.violate("most-recent", "later-caller-of-the-same-lookup-misses-items", format!("caller {} (issued a few ms after the first, before any replica answered) got {:?} but the lookup delivered seqs {:?}", i + 2, got.as_ref().map(|g| g.0), delivered.iter().map(|d| d.0).collect::<Vec<_>>()));
                    break;
                }
            }
        }
    }
    if let Some(d) = sim.died(reader) {
        report.violate("node-died", "reader-actor-panicked", format!("reader died: {d}"));
    }
    if let Some(e) = &enumerated {
        // the planned permutation is the arrival order the trace shows (reach of the enumeration)
        let mut planned: Vec<(usize, (i64, Vec<u8>))> = items.iter().enumerate().filter_map(|(i, it)| it.as_ref().map(|it| (e.perm[i], (it.seq, it.v.clone())))).collect();
        planned.sort_by_key(|p| p.0);
        if planned.into_iter().map(|p| p.1).collect::<Vec<_>>() == delivered {
            report.probe("enumerated_order_as_planned", 1);
        } else {
            report.probe("enumerated_order_differs", 1);
        }
    }
    let first_is_max = delivered.first() == expected.as_ref();
    report.nontrivial = delivered.len() >= 2 && !first_is_max;
    report.probe("items_delivered", delivered.len() as u64);
    if delivered.len() >= 2 && !first_is_max {
        report.probe("max_not_first", 1);
    }
    let mut fp = crate::rng::tag(if use_sync { "sync" } else { "async" });
    for d in &delivered {
        fp = crate::rng::key(fp, &[d.0 as u64, d.1.first().copied().unwrap_or(0) as u64]);
    }
    report.fingerprint = fp;
    let plan = format!(
        "replicas={n} pattern={pattern} enumerated={:?} sync={use_sync} items(seq,value,delay_ms)={:?}\narrival order (seq,value)={:?} result={:?}",
        enumerated.as_ref().map(|e| (e.pattern, e.perm.clone())),
        items.iter().enumerate().map(|(i, it)| it.as_ref().map(|it| (it.seq, String::from_utf8_lossy(&it.v).to_string(), rawnet.with_peer(i, |p| p.delay / MS)))).collect::<Vec<_>>(),
        delivered.iter().map(|d| (d.0, String::from_utf8_lossy(&d.1).to_string())).collect::<Vec<_>>(),
        result.as_ref().map(|r| r.as_ref().map(|g| (g.0, String::from_utf8_lossy(&g.1).to_string())))
    );
    report.sample = Some(json!({"arrival_order": delivered.iter().map(|d| json!([d.0, String::from_utf8_lossy(&d.1)])).collect::<Vec<_>>(), "sync": use_sync}));
    report.plan_dump = Some(plan);
    finish(&sim, report)
}

const EXTREME_SEQS: &[i64] = &[i64::MIN, i64::MAX, -1, 0, i64::MIN + 1, i64::MAX - 1];

struct Enumerated {
    n: usize,
    pattern: u64,
    perm: Vec<usize>,
    sync: bool,
}

/// g -> (flavour, n in 2..=6, pattern in 0..7, permutation of n) in that nesting order, wrapping around
fn decode_enumerated(g: u64) -> Enumerated {
    let sync = g % 2 == 1;
    let mut c = g / 2;
    let fact = |n: u64| (1..=n).product::<u64>();
    let total: u64 = (2..=6).map(|n| fact(n) * 7).sum();
    c %= total;
    let mut n = 2u64;
    while c >= fact(n) * 7 {
        c -= fact(n) * 7;
        n += 1;
    }
    let pattern = c % 7;
    let mut code = c / 7;
    // Lehmer code -> permutation
    let mut pool: Vec<usize> = (0..n as usize).collect();
    let mut perm = vec![];
    for k in (1..=n).rev() {
        let f = fact(k - 1);
        let idx = (code / f) as usize;
        code %= f;
        perm.push(pool.remove(idx));
    }
    Enumerated { n: n as usize, pattern, perm, sync }
}

pub fn property() -> Property {
    Property {
        id: "C16",
        run,
        budget: |t| match t {
            Tier::Quick => 37000,
            Tier::Thorough => 600_000,
        },
        wall_cap_s: |t| match t {
            Tier::Quick => 60.0,
            Tier::Thorough => 1200.0,
        },
        info: || PropInfo {
            floors: vec![],
            rule: "one run = 1..8 scripted replicas holding authentic items of one key (seq patterns: ascending, gaps, duplicates, all-equal ties, random), per-replica response delays seeded so arrival orders vary; every third run is enumerated instead: (2..6 items) x (7 seq patterns: distinct, equal-seq pairs, all-equal ties, single maximum, duplicated maximum, all at i64::MIN, distinct boundary seqs) x (every arrival permutation) x (async / sync API) decoded from the run index (872 x 7 x 2 combinations: all of them in the thorough tier, all permutations of up to 5 items in the quick tier); a real reader calls get_mutable_most_recent (async; sync Dht API through a helper thread in 1/4 of the runs). Expected = max (seq, value) over the items the trace shows delivered in time. Non-trivial = at least two items delivered and the maximum did not arrive first; distinct = hash of the arrival sequence (seq, value) x API flavour".into(),
            assumptions: vec!["loss-free network, RTT < 500 ms so every reply is in time".into()],
        },
    }
}
