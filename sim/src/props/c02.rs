//! C02 — lookups only return authentic data, whatever responders send.
//! A real reader looks items up in a small network of scripted peers, some of which answer
//! with forged / re-targeted / re-salted / corrupted data. Every item that surfaces through the
//! API is re-verified with the harness's own code; honest replicas' items must still surface.

use std::net::SocketAddrV4;

use serde_json::json;

use crate::bencode::Value;
use crate::krpc::{self, Id, Item, Krpc};
use crate::props::common::*;
use crate::props::{PropInfo, Property, Report, RunCtx, Tier};
use crate::rawnet::*;
use crate::rng::Rng;
use crate::sim::*;

const FORGERIES_IMM: &[&str] = &["wrong-hash", "bit-flip", "mutable-shaped", "empty", "oversize", "other-immutable", "bencoded-form", "truncated", "extended"];
const FORGERIES_MUT: &[&str] = &[
    "other-key-valid-sig",
    "other-salt-valid-sig",
    "value-altered",
    "seq-altered",
    "sig-bitflip",
    "k-corrupt",
    "immutable-shaped",
    "other-key-same-value",
    "no-salt-signature",
    "prefix-salt-valid-sig",
    "extended-salt-valid-sig",
];
const FORGERIES_SIGNED: &[&str] = &["mixed-valid-invalid", "other-infohash", "short-entry", "empty-entry", "sig-bitflip", "key-swap", "double-length-entry", "same-key-twice", "same-key-twice-reversed", "same-entry-twice"];

fn signed_entry(k: &[u8; 32], t: u64, s: &[u8; 64]) -> Value {
    let mut b = k.to_vec();
    b.extend_from_slice(&t.to_be_bytes());
    b.extend_from_slice(s);
    Value::Bytes(b)
}

fn run(ctx: &RunCtx) -> Report {
    let mut report = Report::default();
    let mut rng = Rng::new(ctx.seed);
    let net = NetCfg {
        latency_min_us: 500,
        latency_max_us: rng.range(2_000, 200_000),
        ..NetCfg::default()
    };
    let sim = Sim::new(ctx.seed, net);
    sim.set_snap_mode(SnapMode::Off);
    let public = rng.chance(1, 2);
    let rawnet = RawNet::new();
    let n_peers = rng.usize(2, 10);
    let n_byz = rng.usize(1, n_peers.min(8));
    let mut addrs = vec![];
    for i in 0..n_peers {
        let ip = if public { pub_ip(&mut rng) } else { priv_ip(10 + i) };
        let addr = SocketAddrV4::new(ip, 6881);
        let id = if public && rng.chance(2, 3) { krpc::bep42_id(ip, rng.id()) } else { rng.id() };
        let mut p = Peer::new(id, addr);
        p.k = 20;
        rawnet.add(&sim, p);
        addrs.push(addr);
    }
    for i in 0..n_peers {
        rawnet.with_peer(i, |p| p.knows = (0..n_peers).collect());
    }
    // which peers are Byzantine, and how
    let mut byz: Vec<usize> = (0..n_peers).collect();
    rng.shuffle(&mut byz);
    byz.truncate(n_byz);
    let honest: Vec<usize> = (0..n_peers).filter(|i| !byz.contains(i)).collect();
    // 1 run in 4: the Byzantine peers also lie about the reader's address - they all report the
    // address of one of them (what a node believes about its own address is remotely influenced)
    let mut liar: Option<SocketAddrV4> = None;
    if rng.chance(1, 4) {
        let liar_addr = addrs[byz[0]];
        for b in &byz {
            rawnet.with_peer(*b, |p| p.ip_vote = Some(liar_addr));
        }
        liar = Some(liar_addr);
        report.probe("byzantine_address_votes", 1);
    }

    // objects
    let key = krpc::signing_key(rng.bytes(32).try_into().unwrap());
    let other_key = krpc::signing_key(rng.bytes(32).try_into().unwrap());
    let pk = key.verifying_key().to_bytes();
    let salt: Option<Vec<u8>> = match rng.below(3) {
        0 => None,
        1 => Some(b"salt".to_vec()),
        _ => {
            // 1 in 4 of these: longer than the 64 bytes a storing node accepts (lookups do not care)
            let n = if rng.chance(1, 4) { rng.usize(65, 120) } else { rng.usize(1, 64) };
            Some(rng.bytes(n))
        }
    };
    let other_salt: Vec<u8> = b"other-salt".to_vec();
    let mut_target = krpc::mutable_target(&pk, salt.as_deref());
    let vlen = rng.usize(1, 200);
    let value: Vec<u8> = rng.bytes(vlen);
    let imm_target = krpc::immutable_target(&value);
    // the target of the unsalted mutable items of `other_key` - also a legal get_immutable argument
    let imm2_target = krpc::mutable_target(&other_key.verifying_key().to_bytes(), None);
    let info_hash: Id = rng.id();
    let peers_hash: Id = rng.id();
    let honest_seq = rng.range(1, 50) as i64;
    let honest_item = Item::signed(&key, salt.as_deref(), honest_seq, &value);
    let older_item = Item::signed(&key, salt.as_deref(), honest_seq - 1, b"older authentic value");
    let wall_now = 1_767_225_600_000_000u64;
    let ann_keys: Vec<_> = (0..3).map(|_| krpc::signing_key(rng.bytes(32).try_into().unwrap())).collect();
    let honest_anns: Vec<([u8; 32], u64, [u8; 64])> = ann_keys
        .iter()
        .enumerate()
        .map(|(i, k)| {
            // authentic announcements of any age: lookups do not judge timestamps, they must hand
            // out exactly what was signed (also from clocks far ahead or behind)
            let off: i64 = *rng.pick(&[0i64, 1, 44, 46, 3_600, 86_400 * 365, -3_600, -86_400 * 365]);
            let t = (wall_now as i64 + off * 1_000_000) as u64 + i as u64;
            (k.verifying_key().to_bytes(), t, krpc::sign(k, &krpc::signed_announce_signable(&info_hash, t)))
        })
        .collect();

    // honest replicas (possibly none)
    let holders: Vec<usize> = honest.iter().copied().filter(|_| rng.chance(2, 3)).collect();
    for h in &holders {
        rawnet.with_peer(*h, |p| {
            p.immutable.insert(imm_target, value.clone());
            p.mutable.insert(mut_target, honest_item.clone());
            p.signed.insert(info_hash, honest_anns.clone());
            p.peers.insert(peers_hash, vec![SocketAddrV4::new(priv_ip(777), 1234)]);
        });
    }
    // one honest peer may hold an older authentic version
    if let Some(h) = honest.iter().find(|h| !holders.contains(h)) {
        if rng.chance(1, 2) {
            rawnet.with_peer(*h, |p| {
                p.mutable.insert(mut_target, older_item.clone());
            });
        }
    }

    // forgeries per Byzantine peer
    let mut forg: Vec<(usize, &str, &str, &str)> = vec![];
    for b in &byz {
        forg.push((*b, *rng.pick(FORGERIES_IMM), *rng.pick(FORGERIES_MUT), *rng.pick(FORGERIES_SIGNED)));
    }
    report.elements = forg.len();
    let active: Vec<(usize, &str, &str, &str)> = forg.iter().enumerate().filter(|(i, _)| ctx.enabled(*i)).map(|(_, f)| *f).collect();
    {
        let active = active.clone();
        let value = value.clone();
        let salt = salt.clone();
        let key = key.clone();
        let other_key = other_key.clone();
        let honest_anns = honest_anns.clone();
        let ann_keys = ann_keys.clone();
        let honest_item = honest_item.clone();
        let mut hr = Rng::new(ctx.seed ^ 0xb12);
        rawnet.set_hook(Box::new(move |rctx, sh, idx, from, msg: &Krpc| {
            let p = &sh.peers[idx];
            let Some(f) = active.iter().find(|f| f.0 == idx) else {
                return HookResult::Default;
            };
            let q = msg.query_name().unwrap_or("");
            let Some(target) = msg.target() else { return HookResult::Default };
            let opts = opts_for(p, from);
            let mut r: Vec<(&str, Value)> = vec![("id", Value::bytes(&p.id)), ("token", Value::bytes(&p.token)), ("nodes", Value::Bytes(vec![]))];
            if q == "get" && target == imm2_target {
                // a perfectly valid unsalted mutable item of `other_key`: right for get_mutable(other key),
                // never an answer to get_immutable of that target
                let it = Item::signed(&other_key, None, 3, b"a valid mutable item, not an immutable value");
                r.push(("v", Value::bytes(&it.v)));
                r.push(("k", Value::bytes(&it.k)));
                r.push(("sig", Value::bytes(&it.sig)));
                r.push(("seq", Value::Int(3)));
            } else if q == "get" && target == imm_target {
                match f.1 {
                    "wrong-hash" => r.push(("v", Value::Bytes(hr.bytes(20)))),
                    "bit-flip" => {
                        let mut v = value.clone();
                        let i = hr.usize(0, v.len() - 1);
                        v[i] ^= 1 << hr.below(8);
                        r.push(("v", Value::Bytes(v)));
                    }
                    "mutable-shaped" => {
                        let it = Item::signed(&other_key, None, 1, b"forged under an immutable target");
                        r.push(("v", Value::bytes(&it.v)));
                        r.push(("k", Value::bytes(&it.k)));
                        r.push(("sig", Value::bytes(&it.sig)));
                        r.push(("seq", Value::Int(1)));
                    }
                    "empty" => r.push(("v", Value::Bytes(vec![]))),
                    "oversize" => r.push(("v", Value::Bytes(vec![0x41; 1500]))),
                    "bencoded-form" => {
                        // the genuine value in its bencoded form "<len>:<value>": its plain SHA-1 is the
                        // target, its BEP44 hash is not
                        let mut v = format!("{}:", value.len()).into_bytes();
                        v.extend_from_slice(&value);
                        r.push(("v", Value::Bytes(v)));
                    }
                    "truncated" => r.push(("v", Value::Bytes(value[..value.len() - 1].to_vec()))),
                    "extended" => {
                        let mut v = value.clone();
                        v.push(0);
                        r.push(("v", Value::Bytes(v)));
                    }
                    _ => r.push(("v", Value::Bytes(b"some other immutable value".to_vec()))),
                }
            } else if q == "get" && target == mut_target {
                let push_item = |r: &mut Vec<(&str, Value)>, it: &Item| {
                    r.push(("v", Value::bytes(&it.v)));
                    r.push(("k", Value::bytes(&it.k)));
                    r.push(("sig", Value::bytes(&it.sig)));
                    r.push(("seq", Value::Int(it.seq)));
                };
                match f.2 {
                    "other-key-valid-sig" => {
                        // a perfectly valid item ... of somebody else
                        let it = Item::signed(&other_key, salt.as_deref(), honest_item.seq + 100, b"forged: signed by another key");
                        push_item(&mut r, &it);
                    }
                    "other-key-same-value" => {
                        let it = Item::signed(&other_key, salt.as_deref(), honest_item.seq, &honest_item.v);
                        push_item(&mut r, &it);
                    }
                    "other-salt-valid-sig" => {
                        let it = Item::signed(&key, Some(b"other-salt"), honest_item.seq + 50, b"forged: replayed from another salt");
                        push_item(&mut r, &it);
                    }
                    "no-salt-signature" => {
                        // valid for the unsalted slot of the same key
                        let it = Item::signed(&key, if salt.is_some() { None } else { Some(b"x") }, honest_item.seq + 60, b"forged: replayed from another salt slot");
                        push_item(&mut r, &it);
                    }
                    "prefix-salt-valid-sig" | "extended-salt-valid-sig" => {
                        // valid for a salt that is a prefix (first 64 bytes, or all but the last byte) or an
                        // extension of the requested one
                        let other: Vec<u8> = match (&salt, f.2) {
                            (Some(s), "prefix-salt-valid-sig") if s.len() > 64 => s[..64].to_vec(),
                            (Some(s), "prefix-salt-valid-sig") if s.len() > 1 => s[..s.len() - 1].to_vec(),
                            (Some(s), _) => {
                                let mut x = s.clone();
                                x.push(0);
                                x
                            }
                            (None, _) => vec![0],
                        };
                        let it = Item::signed(&key, Some(&other), honest_item.seq + 70, b"forged: replayed from a prefix/extension salt");
                        push_item(&mut r, &it);
                    }
                    "value-altered" => {
                        let mut it = honest_item.clone();
                        it.v = b"forged: value altered after signing".to_vec();
                        push_item(&mut r, &it);
                    }
                    "seq-altered" => {
                        let mut it = honest_item.clone();
                        it.seq += 1000;
                        push_item(&mut r, &it);
                    }
                    "sig-bitflip" => {
                        let mut it = honest_item.clone();
                        it.sig[hr.usize(0, 63)] ^= 1 << hr.below(8);
                        push_item(&mut r, &it);
                    }
                    "k-corrupt" => {
                        let mut it = honest_item.clone();
                        it.k[hr.usize(0, 31)] ^= 1 << hr.below(8);
                        push_item(&mut r, &it);
                    }
                    _ => r.push(("v", Value::Bytes(b"immutable-shaped answer to a mutable get".to_vec()))),
                }
            } else if q == "get_signed_peers" && target == info_hash {
                let other_ih: Id = [0x77; 20];
                let k0 = &ann_keys[0];
                let t = wall_now + 99;
                let forged_other = (k0.verifying_key().to_bytes(), t, krpc::sign(k0, &krpc::signed_announce_signable(&other_ih, t)));
                let list = match f.3 {
                    "mixed-valid-invalid" => {
                        let a = honest_anns[0];
                        vec![signed_entry(&a.0, a.1, &a.2), signed_entry(&forged_other.0, forged_other.1, &forged_other.2)]
                    }
                    "other-infohash" => vec![signed_entry(&forged_other.0, forged_other.1, &forged_other.2)],
                    "short-entry" => vec![Value::Bytes(vec![1u8; 100])],
                    "empty-entry" => vec![Value::Bytes(vec![])],
                    "double-length-entry" => {
                        let a = honest_anns[0];
                        let mut b = vec![];
                        signed_entry(&a.0, a.1, &a.2).as_bytes().map(|x| b.extend_from_slice(x));
                        signed_entry(&forged_other.0, forged_other.1, &forged_other.2).as_bytes().map(|x| b.extend_from_slice(x));
                        vec![Value::Bytes(b)]
                    }
                    "sig-bitflip" => {
                        let mut a = honest_anns[1];
                        a.2[10] ^= 4;
                        vec![signed_entry(&a.0, a.1, &a.2)]
                    }
                    // not forgeries at all, but replays: two genuine announcements of ONE key with
                    // different timestamps in one response (older first / newer first), or one entry
                    // twice. Whatever surfaces must be a (key, timestamp, signature) triple somebody signed.
                    "same-key-twice" | "same-key-twice-reversed" => {
                        let t_old = wall_now - 20_000_000;
                        let t_new = wall_now + 5;
                        let old = signed_entry(&k0.verifying_key().to_bytes(), t_old, &krpc::sign(k0, &krpc::signed_announce_signable(&info_hash, t_old)));
                        let new = signed_entry(&k0.verifying_key().to_bytes(), t_new, &krpc::sign(k0, &krpc::signed_announce_signable(&info_hash, t_new)));
                        if f.3 == "same-key-twice" {
                            vec![old, new]
                        } else {
                            vec![new, old]
                        }
                    }
                    "same-entry-twice" => {
                        let a = honest_anns[0];
                        vec![signed_entry(&a.0, a.1, &a.2), signed_entry(&a.0, a.1, &a.2)]
                    }
                    _ => {
                        // key of one announcement with signature of another
                        let a = honest_anns[0];
                        let b = honest_anns[1];
                        vec![signed_entry(&a.0, b.1, &b.2)]
                    }
                };
                r.push(("peers", Value::List(list)));
            } else {
                return HookResult::Default;
            }
            let me = rctx.me;
            rctx.send_after(0, me, from, krpc::response(&msg.tid, Value::dict(r), &opts));
            HookResult::Handled
        }));
    }

    // reader
    let reader_ip = if public { pub_ip(&mut rng) } else { priv_ip(1) };
    let mut spec = NodeSpec::new(reader_ip, 6881);
    spec.server_mode = rng.chance(1, 3);
    let nboot = rng.usize(1, n_peers.min(3));
    spec.bootstrap = addrs[..nboot].iter().map(|a| a.to_string()).collect();
    // 1 run in 4 (own random stream): a *listener-less lookup first* - get_closest_nodes(t) (a lookup nobody reads
    // values from, like the lookup in front of a put) is started for the immutable target and get_immutable(t)
    // joins it 20..450 ms later; a sleeper peer (answers the bootstrap, then falls silent) is in the reader's
    // table, so every lookup stays open for a request timeout. Whatever the first lookup collected and replays
    // to the late joiner must have been verified.
    let mut prng = Rng::new(crate::rng::key(ctx.seed, &[crate::rng::tag("c02-prelookup")]));
    let prelookup = prng.chance(1, 4);
    let mut sleeper: Option<usize> = None;
    if prelookup {
        let mut p = Peer::new(prng.id(), SocketAddrV4::new(if public { pub_ip(&mut prng) } else { priv_ip(40) }, 6881));
        p.k = 20;
        p.knows = (0..n_peers).collect();
        let a = p.addr;
        sleeper = Some(rawnet.add(&sim, p));
        spec.bootstrap.push(a.to_string());
        report.probe("listener_less_lookup_first_runs", 1);
    }
    let reader = sim.add_node(spec);
    sim.run_for(3 * SEC);
    if let Some(i) = sleeper {
        rawnet.with_peer(i, |p| p.silent = true);
    }
    // the address the Byzantine peers voted for "confirms itself": it pings the reader (claiming the reader's id
    // or any id), as the reader's own confirming self-ping would look - the reader may now believe that this
    // address is its own, reachable, public address. Nothing that address sends later is any more trustworthy.
    if let Some(la) = liar {
        sim.want_snapshot(reader);
        sim.run_for(600 * MS);
        let rid = sim.snapshot(reader).map(|s| s.id).unwrap_or([0; 20]);
        for j in 0..2u32 {
            sim.raw_send(la, sim.node_addr(reader), krpc::query(&krpc::tid_bytes(9100 + j), "ping", krpc::ping_args(&rid), &crate::krpc::MsgOpts::default()));
            sim.run_for(300 * MS);
        }
        report.probe("voted_address_pings_the_reader", 1);
    }

    // calls (some concurrently)
    let concurrent = rng.chance(1, 2);
    let mut ops = vec![];
    let mut issue = |sim: &Sim, what: u64, ops: &mut Vec<(u64, OpId)>| {
        let op = match what {
            0 => sim.get_immutable(reader, imm_target),
            1 => sim.get_mutable(reader, pk, salt.clone(), None),
            2 => sim.get_mutable_most_recent(reader, pk, salt.clone()),
            3 => sim.get_signed_peers(reader, info_hash),
            4 => sim.get_mutable(reader, pk, salt.clone(), Some(honest_seq - 2)),
            6 => sim.get_immutable(reader, imm2_target),
            // a different key: lookups of different kinds for one target share one query (see C01)
            _ => sim.get_peers(reader, peers_hash),
        };
        ops.push((what, op));
    };
    let mut order: Vec<u64> = vec![0, 1, 2, 3, 4, 5, 6];
    rng.shuffle(&mut order);
    let ncalls = rng.usize(1, 7);
    for w in order.iter().take(ncalls) {
        if prelookup && *w == 0 {
            let _ = sim.get_closest_nodes(reader, imm_target);
            sim.run_for(prng.range(20, 450) * MS);
        }
        issue(&sim, *w, &mut ops);
        if !concurrent {
            let id = ops.last().unwrap().1;
            sim.run_ops(&[id], sim.now() + 120 * SEC);
        } else {
            sim.run_for(rng.range(0, 300) * MS);
        }
    }
    let ids: Vec<OpId> = ops.iter().map(|o| o.1).collect();
    let all_done = sim.run_ops(&ids, sim.now() + 180 * SEC);

    // ---- oracle
    let holders_exist = !holders.is_empty();
    let check_item = |report: &mut Report, it: &dht::MutableItem, via: &str| {
        let sig_ok = krpc::verify(&pk, &krpc::mutable_signable(it.seq(), it.value(), salt.as_deref()), it.signature());
        if it.key() != &pk {
            report.violate("forged-mutable", "mutable-item-of-another-key", format!("{via} yielded an item whose key is {} but {} was requested (seq {}, value {:?})", krpc::hex(it.key()), krpc::hex(&pk), it.seq(), String::from_utf8_lossy(it.value())));
        } else if it.salt() != salt.as_deref() {
            report.violate("forged-mutable", "mutable-item-of-another-salt", format!("{via} yielded an item with salt {:?}, requested {:?}", it.salt(), salt));
        } else if !sig_ok {
            report.violate("forged-mutable", "mutable-item-bad-signature", format!("{via} yielded an item (seq {}) whose signature does not verify under the requested key and salt", it.seq()));
        } else if it.target().as_bytes() != &mut_target {
            report.violate("forged-mutable", "mutable-item-wrong-target", format!("{via} yielded an item with target {}", krpc::hex(it.target().as_bytes())));
        }
    };
    for (what, id) in &ops {
        let (done, panicked) = sim.with_op(*id, |o| (o.done(), o.panicked.clone()));
        if let Some(p) = panicked {
            report.violate("api-panic", "api-call-panicked", format!("API call #{what} panicked: {p}"));
            continue;
        }
        if !done {
            continue;
        }
        match sim.take_outcome(*id) {
            Some(Outcome::Immutable(v)) if *what == 6 => {
                report.probe("get_immutable_on_a_mutable_target_done", 1);
                if let Some(v) = &v {
                    if krpc::immutable_target(v) != imm2_target {
                        report.violate("forged-immutable", "immutable-wrong-hash", format!("get_immutable({}) returned {} bytes whose BEP44 hash is {} (the value of a mutable item stored under that target)", hex8(&imm2_target), v.len(), hex8(&krpc::immutable_target(v))));
                    }
                }
            }
            Some(Outcome::Immutable(v)) => {
                report.probe("get_immutable_done", 1);
                if let Some(v) = &v {
                    if krpc::immutable_target(v) != imm_target {
                        report.violate("forged-immutable", "immutable-wrong-hash", format!("get_immutable({}) returned {} bytes whose BEP44 hash is {}", hex8(&imm_target), v.len(), hex8(&krpc::immutable_target(v))));
                    }
                }
                if holders_exist && v.is_none() {
                    report.violate("over-rejection", "authentic-immutable-not-returned", format!("get_immutable returned None although honest peers {holders:?} hold the value"));
                }
            }
            Some(Outcome::Mutable(items)) => {
                report.probe("get_mutable_done", 1);
                for (_, it) in &items {
                    check_item(&mut report, it, "get_mutable");
                }
                let filtered = *what == 4;
                if holders_exist && !items.iter().any(|(_, it)| it.seq() == honest_seq && it.value() == value.as_slice()) {
                    report.violate("over-rejection", "authentic-mutable-not-returned", format!("get_mutable(filter={filtered}) did not yield the authentic seq {honest_seq} held by honest peers {holders:?} (yielded seqs {:?})", items.iter().map(|i| i.1.seq()).collect::<Vec<_>>()));
                }
            }
            Some(Outcome::MostRecent(it)) => {
                report.probe("most_recent_done", 1);
                if let Some(it) = &it {
                    check_item(&mut report, it, "get_mutable_most_recent");
                }
                if holders_exist && it.is_none() {
                    report.violate("over-rejection", "authentic-mutable-not-returned", "get_mutable_most_recent returned None although honest peers hold an item".into());
                }
            }
            Some(Outcome::SignedPeers(batches)) => {
                report.probe("get_signed_peers_done", 1);
                let mut seen_honest = false;
                for (_, batch) in &batches {
                    for (k, t, s) in batch {
                        if !krpc::verify(k, &krpc::signed_announce_signable(&info_hash, *t), s) {
                            report.violate("forged-signed-peer", "signed-announce-bad-signature", format!("get_signed_peers yielded an announcement (key {}, t {t}) whose signature does not verify for the info hash", hex8(k)));
                        }
                        if honest_anns.iter().any(|a| a.0 == *k && a.1 == *t) {
                            seen_honest = true;
                        }
                    }
                }
                if holders_exist && !seen_honest {
                    report.violate("over-rejection", "authentic-signed-peers-not-returned", "get_signed_peers yielded none of the authentic announcements held by honest peers".into());
                }
            }
            Some(Outcome::Peers(_)) => report.probe("get_peers_done", 1),
            _ => {}
        }
    }
    if let Some(d) = sim.died(reader) {
        // the reader's event loop died: also a C05 matter, reported under its own key
        report.violate("node-died", "reader-actor-panicked", format!("reader actor died: {d}"));
    } else if !all_done {
        report.violate("hang", "lookup-did-not-finish", "a lookup did not finish within 180 s of virtual time in a loss-free network".into());
    }
    // 1 run in 3 (own random stream): *another info hash afterwards* - every peer (the Byzantine ones too: their
    // forgeries concern the first info hash only) holds authentic announcements for a second info hash, which
    // the reader looks up after everything above. What surfaces must be signed for THAT info hash: nothing of
    // an earlier, rejected response may ride along.
    let mut srng = Rng::new(crate::rng::key(ctx.seed, &[crate::rng::tag("c02-second-info-hash")]));
    if report.violation.is_none() && srng.chance(1, 3) {
        let ih_b: Id = srng.id();
        let anns_b: Vec<([u8; 32], u64, [u8; 64])> = (0..srng.usize(1, 4))
            .map(|i| {
                let k = krpc::signing_key(srng.bytes(32).try_into().unwrap());
                let t = wall_now + 1000 + i as u64;
                (k.verifying_key().to_bytes(), t, krpc::sign(&k, &krpc::signed_announce_signable(&ih_b, t)))
            })
            .collect();
        for i in 0..n_peers {
            let a = anns_b.clone();
            rawnet.with_peer(i, |p| {
                p.signed.insert(ih_b, a);
            });
        }
        let op = sim.get_signed_peers(reader, ih_b);
        sim.run_ops(&[op], sim.now() + 120 * SEC);
        if let Some(Outcome::SignedPeers(batches)) = sim.take_outcome(op) {
            let mut n_ok = 0;
            'b: for (_, batch) in &batches {
                for (k, t, sg) in batch {
                    if !krpc::verify(k, &krpc::signed_announce_signable(&ih_b, *t), sg) {
                        report.violate("forged-signed-peer", "signed-announce-bad-signature", format!("get_signed_peers of a second info hash {} yielded an announcement (key {}, t {t}) whose signature does not verify for that info hash{}", hex8(&ih_b), krpc::hex(&k[..8]), if krpc::verify(k, &krpc::signed_announce_signable(&info_hash, *t), sg) { " - it was signed for the info hash looked up earlier" } else { "" }));
                        break 'b;
                    }
                    n_ok += 1;
                }
            }
            if n_ok == 0 && report.violation.is_none() {
                report.violate("over-rejection", "authentic-signed-peers-not-returned", "get_signed_peers of a second info hash yielded none of the authentic announcements every peer holds".into());
            }
        }
        report.probe("second_info_hash_reads", 1);
    }
    // 1 run in 60 (own random stream): a *veteran tail* - the reader goes on to look up 1030..1100 targets nobody
    // holds anything for (rolling its cache of the last 1000 lookups, whose oldest entries are the successful
    // reads above) and then asks the most recent 150 of them again, newest first. Nothing authentic exists for
    // those targets: whatever surfaces is somebody else's data.
    let mut vrng = Rng::new(crate::rng::key(ctx.seed, &[crate::rng::tag("c02-veteran-tail")]));
    if report.violation.is_none() && vrng.chance(1, 60) {
        let n = vrng.usize(1030, 1100);
        let mut asked: Vec<(bool, [u8; 20], [u8; 32])> = vec![];
        let issue_empty = |sim: &Sim, e: &(bool, [u8; 20], [u8; 32])| if e.0 { sim.get_immutable(reader, e.1) } else { sim.get_mutable(reader, e.2, None, None) };
        let mut batch: Vec<OpId> = vec![];
        for i in 0..n {
            let e = (i % 2 == 0, vrng.id(), {
                let b: [u8; 32] = vrng.bytes(32).try_into().unwrap();
                krpc::signing_key(b).verifying_key().to_bytes()
            });
            batch.push(issue_empty(&sim, &e));
            asked.push(e);
            if batch.len() == 25 || i + 1 == n {
                sim.run_ops(&batch, sim.now() + 120 * SEC);
                batch.clear();
            }
        }
        for e in asked.iter().rev().take(150) {
            let op = issue_empty(&sim, e);
            sim.run_ops(&[op], sim.now() + 120 * SEC);
            match sim.take_outcome(op) {
                Some(Outcome::Immutable(Some(v))) if krpc::immutable_target(&v) != e.1 => {
                    report.violate("forged-immutable", "immutable-wrong-hash", format!("after {n} further lookups get_immutable({}) - a target nobody holds anything for - returned {} bytes whose BEP44 hash is {}", hex8(&e.1), v.len(), hex8(&krpc::immutable_target(&v))));
                    break;
                }
                Some(Outcome::Mutable(items)) => {
                    if let Some((_, it)) = items.iter().find(|(_, it)| it.key() != &e.2 || !krpc::verify(&e.2, &krpc::mutable_signable(it.seq(), it.value(), None), it.signature())) {
                        report.violate("forged-mutable", "mutable-item-of-another-key", format!("after {n} further lookups get_mutable of a key nobody wrote yielded an item of key {} (seq {})", krpc::hex(it.key()), it.seq()));
                        break;
                    }
                }
                _ => {}
            }
        }
        report.probe("veteran_tail_runs", 1);
        report.probe("veteran_tail_lookups", n as u64 + 150);
    }
    // how many forged replies were actually delivered to the reader
    let forged_delivered = rawnet.shared.borrow().peers.iter().enumerate().filter(|(i, p)| active.iter().any(|f| f.0 == *i) && !p.requests.is_empty()).count();
    report.nontrivial = forged_delivered > 0;
    report.probe("byzantine_peers_queried", forged_delivered as u64);
    report.probe("honest_holders", holders.len() as u64);
    let plan = format!(
        "reader {} (server_mode={}) peers={n_peers} public={public} holders={holders:?} concurrent={concurrent} calls={:?}\nforgeries (peer, immutable, mutable, signed): {:?}",
        sim.node_addr(reader),
        sim.node_spec(reader).server_mode,
        ops.iter().map(|o| o.0).collect::<Vec<_>>(),
        active
    );
    report.sample = Some(json!({"peers": n_peers, "byzantine": active.iter().map(|f| json!([f.0, f.1, f.2, f.3])).collect::<Vec<_>>(), "holders": holders, "calls": ops.iter().map(|o| o.0).collect::<Vec<_>>() }));
    report.plan_dump = Some(plan);
    finish(&sim, report)
}

pub fn property() -> Property {
    Property {
        id: "C02",
        run,
        budget: |t| match t {
            Tier::Quick => 24000,
            Tier::Thorough => 600_000,
        },
        wall_cap_s: |t| match t {
            Tier::Quick => 60.0,
            Tier::Thorough => 1500.0,
        },
        info: || PropInfo {
            floors: vec![],
            rule: "one run = a real reader (client or server mode, private or public IP plan) bootstrapped into 2..10 scripted peers of which 1..8 are Byzantine; each Byzantine peer draws one forgery per read kind from the catalogue (immutable: 6, mutable: 9, signed peers: 7 forgeries incl. valid signatures under another key, other salt, altered value/seq, corrupt k/sig, mixed lists); 1..6 read API calls, sequential or overlapping; every surfaced item is re-verified by the harness and authentic replicas must surface. Non-trivial = a Byzantine peer was actually queried; distinct = hash of the delivery order at the reader".into(),
            assumptions: vec!["loss-free network (latencies below the request timeout)".into(), "replaying an older authentic item is not a forgery".into(), "ed25519-dalek / sha1_smol trusted for re-verification".into()],
        },
    }
}
