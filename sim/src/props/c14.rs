//! C14 — routing tables stay healthy over hours of (virtual) uptime.

use std::cell::RefCell;
use std::collections::{BTreeMap, BTreeSet};
use std::net::SocketAddrV4;
use std::rc::Rc;

use serde_json::json;

use crate::krpc::{Id, Krpc};
use crate::props::common::*;
use crate::props::netkit::*;
use crate::props::{PropInfo, Property, Report, RunCtx, Tier};
use crate::rng::Rng;
use crate::sim::*;

const MIN15: u64 = 15 * 60 * SEC;

fn run(ctx: &RunCtx) -> Report {
    let mut report = Report::default();
    let mut rng = Rng::new(ctx.seed);
    let net_cfg = NetCfg {
        // 1 run in 6: slow links, round trips above the initial 500 ms request timeout
        latency_min_us: if rng.chance(1, 6) { rng.range(260_000, 330_000) } else { 500 },
        latency_max_us: rng.range(2_000, 150_000),
        ..NetCfg::default()
    };
    let mut net_cfg = net_cfg;
    if net_cfg.latency_min_us > net_cfg.latency_max_us {
        net_cfg.latency_max_us = net_cfg.latency_min_us + 60_000;
    }
    let slow_links = net_cfg.latency_min_us > 250_000;
    let sim = Sim::new(ctx.seed, net_cfg);
    sim.set_snap_mode(SnapMode::OnConsume);
    sim.set_snap_every(4);
    let mut plan = random_plan(&mut rng, 16, 4);
    plan.servers = rng.usize(3, 16);
    // 1 run in 8: enough servers for full buckets (one virtual hour only, to bound the cost)
    let big = rng.chance(1, if ctx.tier == Tier::Quick { 16 } else { 8 });
    if big {
        plan.servers = rng.usize(42, 60);
        plan.clients = 0;
    }
    plan.dead_bootstrap = 0;
    plan.join = Join::Staggered(rng.range(1, 120) * SEC);
    // (d) how long each node's main table has been empty; and the largest request timeout seen
    let empty_since: Rc<RefCell<BTreeMap<HostId, u64>>> = Default::default();
    let worst_empty: Rc<RefCell<BTreeMap<HostId, (u64, u64)>>> = Default::default();
    let tau: Rc<RefCell<u64>> = Rc::new(RefCell::new(500 * MS));
    let hub_alive: Rc<RefCell<bool>> = Rc::new(RefCell::new(true));
    // nodes currently cut off from everybody by a partition
    // (a multiset: a partition and a suspension of one node may overlap)
    let isolated: Rc<RefCell<BTreeMap<HostId, u32>>> = Default::default();
    // exact log of full buckets, written after every step that consumed a datagram:
    // (host, bucket) -> [(from, until, members)] (the 30 s sampling below misses a bucket that is full
    // for a few seconds only - a false alarm of an earlier version)
    type FullLog = BTreeMap<(HostId, u8), Vec<(u64, u64, BTreeSet<SocketAddrV4>)>>;
    let full_log: Rc<RefCell<FullLog>> = Default::default();
    {
        let (es, we, tau, hub_alive, isolated) = (empty_since.clone(), worst_empty.clone(), tau.clone(), hub_alive.clone(), isolated.clone());
        let full_log = full_log.clone();
        sim.set_observer(Box::new(move |h, now, s| {
            for (k, b) in &s.routing_table.buckets {
                if b.len() >= 20 {
                    let members: BTreeSet<SocketAddrV4> = b.iter().map(|n| n.address).collect();
                    let mut fl = full_log.borrow_mut();
                    let e = fl.entry((h, *k)).or_default();
                    match e.last_mut() {
                        Some(last) if last.2 == members => last.1 = now,
                        _ => {
                            e.push((now, now, members));
                            if e.len() > 400 {
                                e.remove(0);
                            }
                        }
                    }
                }
            }
            let mut t = tau.borrow_mut();
            *t = (*t).max(s.socket.request_timeout_ns);
            let mut es = es.borrow_mut();
            if s.routing_table.size == 0 && !s.bootstrap.is_empty() && *hub_alive.borrow() && !isolated.borrow().contains_key(&h) {
                let since = *es.entry(h).or_insert(now);
                let mut we = we.borrow_mut();
                let e = we.entry(h).or_insert((0, 0));
                if now - since > e.0 {
                    *e = (now - since, now);
                }
            } else {
                es.remove(&h);
            }
        }));
    }
    let mut brng = Rng::new(crate::rng::key(ctx.seed, &[crate::rng::tag("c14-busy")]));
    let busy = !big && plan.servers <= 8 && brng.chance(1, 3);
    if busy {
        // thousands of lookups: a snapshot (with its 1000 cached lookups) after every consumed datagram
        // would dominate the run; fresh snapshots are requested just before every check instant instead
        sim.set_snap_mode(SnapMode::OnDemand);
    }
    let net = build(&sim, &mut rng, &plan);
    let all = net.all();
    let hours = if big {
        1
    } else {
        match ctx.tier {
            Tier::Quick => rng.range(1, 3),
            Tier::Thorough => rng.range(2, 6),
        }
    };
    if big {
        report.probe("big_network_runs", 1);
    }
    // 1 small run in 5 (own random stream): a *busy node* - an indexer or relay that starts a lookup every
    // 200..450 ms for the whole (one-hour) run, so that once a peer has died (each lookup then waits a
    // request timeout for it) there is no tick without a lookup in progress. Maintenance must not depend on
    // quiet moments. Such a run always has a crash without restart early on.
    let hours = if busy { 1 } else { hours };
    let t0 = sim.now();
    let t_end = t0 + hours * 3600 * SEC;

    // timeline: crashes, restarts, lookups
    let n_faults = rng.usize(0, 5);
    report.elements = n_faults;
    let mut crash_times: BTreeMap<HostId, Vec<(u64, Option<u64>)>> = BTreeMap::new();
    let mut plan_lines = vec![format!("{plan:?} hours={hours}")];
    for i in 0..n_faults {
        let mut r = Rng::new(crate::rng::key(ctx.seed, &[crate::rng::tag("fault"), i as u64]));
        if !ctx.enabled(i) {
            continue;
        }
        let victim = net.servers[r.usize(0, net.servers.len() - 1)];
        if crash_times.contains_key(&victim) {
            continue;
        }
        let at = t0 + r.range(60, (hours * 3600).saturating_sub(3000).max(61)) * SEC;
        let restart = if r.chance(1, 2) && victim != net.first { Some(at + r.range(1, 1200) * SEC) } else { None };
        crash_times.entry(victim).or_default().push((at, restart));
        plan_lines.push(format!("crash {} at t={}s restart={:?}", sim.node_addr(victim), at / SEC, restart.map(|r| r / SEC)));
        let hub = net.first;
        let ha = hub_alive.clone();
        sim.at(at, move |sim| {
            sim.crash(victim);
            if victim == hub {
                *ha.borrow_mut() = false;
            }
        });
        if let Some(rt) = restart {
            sim.at(rt, move |sim| sim.restart(victim, None));
        }
    }
    let mut busy_node: Option<HostId> = None;
    if busy {
        let b = all[brng.usize(0, all.len() - 1)];
        busy_node = Some(b);
        let gap = brng.range(200, 450) * MS;
        plan_lines.push(format!("busy node {}: a lookup every {} ms", sim.node_addr(b), gap / MS));
        let mut at = t0 + brng.range(1, 30) * SEC;
        let mut n = 0u64;
        while at < t_end {
            let t = brng.id();
            let kind = brng.below(3);
            sim.at(at, move |sim| {
                if sim.alive(b) {
                    match kind {
                        0 => sim.find_node(b, t),
                        1 => sim.get_immutable(b, t),
                        _ => sim.get_peers(b, t),
                    };
                }
            });
            at += gap;
            n += 1;
        }
        report.probe("busy_node_runs", 1);
        report.probe("busy_node_lookups", n);
        // a peer of the busy node dies for good in the first ten minutes
        let cands: Vec<HostId> = net.servers.iter().copied().filter(|h| *h != b && *h != net.first && !crash_times.contains_key(h)).collect();
        if !cands.is_empty() {
            let victim = cands[brng.usize(0, cands.len() - 1)];
            let at = t0 + brng.range(60, 600) * SEC;
            crash_times.entry(victim).or_default().push((at, None));
            plan_lines.push(format!("crash {} at t={}s restart=None (busy run)", sim.node_addr(victim), at / SEC));
            sim.at(at, move |sim| sim.crash(victim));
            report.probe("busy_node_runs_with_a_dead_peer", 1);
        }
    }
    // partitions: a server is cut off from everybody for a while, then the network heals
    let mut partition_windows: Vec<(u64, u64)> = vec![];
    let mut suspend_windows: Vec<(HostId, u64, u64)> = vec![];
    let n_parts = if rng.chance(1, 3) { rng.usize(1, 2) } else { 0 };
    for _ in 0..n_parts {
        let victim = net.servers[rng.usize(0, net.servers.len() - 1)];
        if victim == net.first || crash_times.contains_key(&victim) {
            continue;
        }
        let at = t0 + rng.range(60, (hours * 3600).saturating_sub(2500).max(61)) * SEC;
        let heal = at + rng.range(60, 1800) * SEC;
        plan_lines.push(format!("partition {} from everybody from t={}s to t={}s", sim.node_addr(victim), at / SEC, heal / SEC));
        let vip = *sim.node_addr(victim).ip();
        let others: Vec<std::net::Ipv4Addr> = all.iter().filter(|h| **h != victim).map(|h| *sim.node_addr(*h).ip()).collect();
        let (o1, o2) = (others.clone(), others);
        let (i1, i2) = (isolated.clone(), isolated.clone());
        sim.at(at, move |sim| {
            for ip in &o1 {
                sim.block(vip, *ip);
                sim.block(*ip, vip);
            }
            *i1.borrow_mut().entry(victim).or_insert(0) += 1;
        });
        sim.at(heal, move |sim| {
            for ip in &o2 {
                sim.unblock(vip, *ip);
                sim.unblock(*ip, vip);
            }
            {
                let mut m = i2.borrow_mut();
                if let Some(c) = m.get_mut(&victim) {
                    *c -= 1;
                    if *c == 0 {
                        m.remove(&victim);
                    }
                }
            }
        });
        report.probe("partitions_planned", 1);
        partition_windows.push((at, heal));
    }
    // a node is suspended (not scheduled at all) for a while and then resumes: to the node this is a
    // clock jump; everything it knows is stale afterwards
    if rng.chance(1, 4) {
        let victim = net.servers[rng.usize(0, net.servers.len() - 1)];
        // (not the busy node: thousands of calls would queue up on a frozen process)
        if victim != net.first && !crash_times.contains_key(&victim) && busy_node != Some(victim) {
            let at = t0 + rng.range(60, (hours * 3600).saturating_sub(2500).max(61)) * SEC;
            let d = rng.range(60, 2400) * SEC;
            plan_lines.push(format!("suspend {} at t={}s for {}s", sim.node_addr(victim), at / SEC, d / SEC));
            let (i1, i2) = (isolated.clone(), isolated.clone());
            let did = Rc::new(std::cell::Cell::new(false));
            let did2 = did.clone();
            sim.at(at, move |sim| {
                if sim.alive(victim) {
                    sim.stall(victim, d);
                    *i1.borrow_mut().entry(victim).or_insert(0) += 1;
                    did.set(true);
                }
            });
            // it needs a moment after resuming to work through its backlog and re-bootstrap
            sim.at(at + d + 20 * SEC, move |_sim| {
                if did2.get() {
                let mut m = i2.borrow_mut();
                if let Some(c) = m.get_mut(&victim) {
                    *c -= 1;
                    if *c == 0 {
                        m.remove(&victim);
                    }
                }
            }
            });
            partition_windows.push((at, at + d));
            suspend_windows.push((victim, at, at + d));
            report.probe("suspensions_planned", 1);
        }
    }
    let n_lookups = rng.usize(0, 30);
    for _ in 0..n_lookups {
        let at = t0 + rng.range(0, hours * 3600) * SEC;
        let h = all[rng.usize(0, all.len() - 1)];
        let t = rng.id();
        let kind = rng.below(3);
        sim.at(at, move |sim| {
            if sim.alive(h) {
                match kind {
                    0 => sim.find_node(h, t),
                    1 => sim.get_immutable(h, t),
                    _ => sim.get_peers(h, t),
                };
            }
        });
    }

    // walk the timeline, checking at regular instants
    let step = 30 * SEC;
    let mut last_scan = 0usize; // trace position
    // (X, P addr) -> last time P answered X's lookup / ping request
    let mut last_answer: BTreeMap<(HostId, SocketAddrV4), (u64, Id)> = BTreeMap::new();
    let mut pending: BTreeMap<(HostId, SocketAddrV4, u32), u64> = BTreeMap::new();
    let by_addr: BTreeMap<SocketAddrV4, HostId> = all.iter().map(|h| (sim.node_addr(*h), *h)).collect();
    let mut born: BTreeMap<HostId, u64> = all.iter().map(|h| (*h, 0u64)).collect();
    let mut incarnations: BTreeMap<HostId, u32> = all.iter().map(|h| (*h, 0u32)).collect();
    let mut old_ids: BTreeMap<HostId, Vec<(Id, u64)>> = BTreeMap::new(); // ids of dead incarnations with crash time
    let mut current_id: BTreeMap<HostId, Id> = BTreeMap::new();
    let mut restarted_at: BTreeMap<HostId, u64> = BTreeMap::new();
    let mut relearned: BTreeSet<HostId> = BTreeSet::new();
    let mut rekeyed_at: BTreeMap<HostId, u64> = BTreeMap::new();
    let mut first_seen: BTreeMap<HostId, u64> = BTreeMap::new();
    // sizes of a node's buckets over time: (host, bucket) -> [(t, entries)]
    let mut bucket_hist: BTreeMap<(HostId, u8), Vec<(u64, usize, BTreeSet<SocketAddrV4>)>> = BTreeMap::new();
    let mut answered_within_window_checks = 0u64;
    let mut ip_limited = 0u64;
    let mut capacity_limited = 0u64;
    // last id seen in a node's tables for an address
    let mut slot_hist: BTreeMap<(HostId, std::net::Ipv4Addr), Vec<(u64, BTreeSet<Id>)>> = BTreeMap::new();
    // (e) last time each node sent a find_node for its own id
    let mut last_refresh: BTreeMap<HostId, u64> = BTreeMap::new();
    let mut refresh_checks = 0u64;
    let mut t = sim.now();
    'outer: while t < t_end {
        t += step;
        if busy {
            sim.run_until(t - 700 * MS);
            for h in &all {
                sim.want_snapshot(*h);
            }
        }
        sim.run_until(t);
        // new incarnations
        for h in &all {
            let inc = sim.incarnation(*h);
            if inc != incarnations[h] {
                incarnations.insert(*h, inc);
                born.insert(*h, t);
                restarted_at.insert(*h, t);
                relearned.remove(h);
                // everything the old incarnation was told is gone with it
                last_answer.retain(|k, _| k.0 != *h);
            }
            if let Some(s) = sim.snapshot(*h) {
                if sim.alive(*h) {
                    if let Some(prev) = current_id.insert(*h, s.id) {
                        if prev != s.id {
                            old_ids.entry(*h).or_default().push((prev, t));
                            rekeyed_at.insert(*h, t);
                        }
                    }
                }
            }
            if !sim.alive(*h) {
                if let Some(id) = current_id.remove(h) {
                    old_ids.entry(*h).or_default().push((id, t));
                }
            }
        }
        // who answered whom since the last scan
        sim.with_trace(|tr| {
            for d in &tr[last_scan..] {
                let Some(k) = Krpc::parse(&d.bytes) else { continue };
                if let (Some(x), Some(q)) = (d.from_host, k.query_name()) {
                    // a refresh (or bootstrap) lookup: find_node for the sender's own id
                    if q == "find_node" && d.dup_of.is_none() && k.target().is_some() && k.target() == k.id() {
                        last_refresh.insert(x, d.t_send);
                    }
                    if matches!(q, "find_node" | "get" | "get_peers" | "get_signed_peers" | "ping") {
                        pending.insert((x, d.dst, k.tid_u32().unwrap_or(0)), d.t_send);
                    }
                }
                if let (Some(x), true, Some(at)) = (d.to_host, k.is_response(), d.t_deliver) {
                    if d.fate != Fate::Delivered || k.ro {
                        continue;
                    }
                    if let Some(req_sent) = pending.remove(&(x, d.src, k.tid_u32().unwrap_or(0))) {
                        if let Some(id) = k.id() {
                            // round trip measured from the request
                            if at.saturating_sub(req_sent) < 400 * MS && at <= t {
                                last_answer.insert((x, d.src), (at, id));
                            }
                        }
                    }
                }
            }
            last_scan = tr.len();
        });
        if pending.len() > 50_000 {
            pending.clear();
        }
        if let (Ok(dx), Ok(dp)) = (std::env::var("DEBUG_X"), std::env::var("DEBUG_P")) {
            for x in &all {
                if sim.node_addr(*x).to_string() == dx {
                    if let Some(s) = sim.snapshot(*x) {
                        println!("t={}s own id {} inc {} alive {} table {} timeout {}ms inflight {} queries {}", t / SEC, hex8(&s.id), sim.incarnation(*x), sim.alive(*x), s.routing_table.size, s.socket.request_timeout_ns / MS, s.socket.inflight.len(), s.iterative_queries.len());
                        for (tn, tb) in [("main", &s.routing_table), ("signed", &s.signed_peers_routing_table)] {
                            for (k, b) in &tb.buckets {
                                for n in b {
                                    if n.address.to_string() == dp {
                                        println!("t={}s {tn} bucket {k}: {} @ {} age {:.1}s secure={}", t / SEC, hex8(&n.id), n.address, n.age_ns as f64 / SEC as f64, n.secure);
                                    }
                                }
                            }
                        }
                    }
                }
            }
        }
        // checks
        for x in &all {
            if !sim.alive(*x) {
                continue;
            }
            // a suspended node does nothing and observes nothing; what it was told before the
            // suspension is as good as forgotten when it resumes (its clock has jumped)
            if let Some((_, _, end)) = suspend_windows.iter().find(|(v, a, e)| v == x && t >= *a && t <= *e + 30 * SEC) {
                born.insert(*x, *end + 30 * SEC);
                continue;
            }
            let Some(s) = sim.snapshot(*x) else { continue };
            // a node may re-key right after its start, before it was first observed here
            let seen_since = *first_seen.entry(*x).or_insert(t);
            let skew = 1.0 + sim.node_spec(*x).clock_ppm.unsigned_abs() as f64 / 1e6 + 0.01;
            let main: BTreeMap<SocketAddrV4, Id> = s.routing_table.buckets.iter().flat_map(|(_, b)| b.iter().map(|n| (n.address, n.id))).collect();
            let signed: BTreeMap<SocketAddrV4, Id> = s.signed_peers_routing_table.buckets.iter().flat_map(|(_, b)| b.iter().map(|n| (n.address, n.id))).collect();
            // (a) a peer that answered within the last 15 minutes is still there
            for ((xx, paddr), (at, pid)) in last_answer.iter() {
                if xx != x || *at < born[x] || *at < seen_since + 30 * SEC {
                    continue;
                }
                let age = t - at;
                if age < 3 * SEC || (age as f64) > (MIN15 as f64 / skew) - 30.0 * SEC as f64 {
                    continue;
                }
                answered_within_window_checks += 1;
                // present in either of the node's routing tables ("still in its routing table")
                if main.contains_key(paddr) || signed.contains_key(paddr) {
                    continue;
                }
                // exemptions: the node re-keyed, the peer's bucket is full, or the peer was itself
                if *pid == s.id || *paddr == sim.node_addr(*x) {
                    continue;
                }
                // IP limit: the address's slot was held by an entry with another id (e.g. the peer
                // re-keyed or restarted; its old id keeps the slot until it expires)
                if let Some(hist) = slot_hist.get(&(*x, *paddr.ip())) {
                    // what held that IP's slot around the time of the answer
                    if hist.iter().any(|(ht, ids)| *ht + 60 * SEC >= *at && *ht <= *at + 60 * SEC && ids.iter().any(|h| h != pid)) {
                        ip_limited += 1;
                        continue;
                    }
                }
                let d = crate::krpc::distance(&s.id, pid);
                let bucket_len = s.routing_table.buckets.iter().find(|(k, _)| *k == d).map(|(_, b)| b.len()).unwrap_or(0);
                if bucket_len >= 20 {
                    continue;
                }
                // capacity: the peer's bucket was full around the time it answered
                // (and the peer was not one of its members: a member of a full bucket is refreshed)
                if bucket_hist.get(&(*x, d)).map(|h| h.iter().any(|(ht, n, members)| *ht + 60 * SEC >= *at && *ht <= *at + 60 * SEC && *n >= 20 && !members.contains(paddr))).unwrap_or(false) {
                    capacity_limited += 1;
                    continue;
                }
                // same, from the exact log: full without the peer in the step that consumed the answer
                if full_log.borrow().get(&(*x, d)).map(|h| h.iter().any(|(from, until, members)| *from <= *at + SEC && *until + SEC >= *at && !members.contains(paddr))).unwrap_or(false) {
                    capacity_limited += 1;
                    report.probe("capacity_limited_by_exact_log", 1);
                    continue;
                }
                // the node re-keyed after the answer (its table was rebuilt under a new id)
                if rekeyed_at.get(x).map(|r| *r + 30 * SEC >= *at).unwrap_or(false) {
                    continue;
                }
                if ctx.verbose {
                    for (tn, tb) in [("main", &s.routing_table), ("signed", &s.signed_peers_routing_table)] {
                        for (k, b) in &tb.buckets {
                            for n in b {
                                println!("  {tn} bucket {k}: {} @ {} age {:.1}s", hex8(&n.id), n.address, n.age_ns as f64 / SEC as f64);
                            }
                        }
                    }
                    println!("  own id {} server_mode={} firewalled={} public_address={:?} since_ping={}s since_refresh={}s", hex8(&s.id), s.server_mode, s.firewalled, s.public_address, s.since_table_ping_ns / SEC, s.since_table_refresh_ns / SEC);
                    sim.with_trace(|tr| {
                        for d in tr.iter().filter(|d| (d.src == *paddr && d.to_host == Some(*x)) || (d.dst == *paddr && d.from_host == Some(*x))).rev().take(14) {
                            println!("  {}", trace_line(d));
                        }
                    });
                }
                report.violate(
                    "healthy-table",
                    "responsive-peer-missing-from-table",
                    format!(
                        "at t={}s node {} no longer has {} (id {}) in its routing table although that peer answered one of its requests {:.1} min ago (bucket {d} holds {bucket_len} entries)",
                        t / SEC,
                        sim.node_addr(*x),
                        paddr,
                        hex8(pid),
                        age as f64 / (60.0 * SEC as f64)
                    ),
                );
                break 'outer;
            }
            for (k, b) in &s.routing_table.buckets {
                let h = bucket_hist.entry((*x, *k)).or_default();
                let members: BTreeSet<SocketAddrV4> = if b.len() >= 20 { b.iter().map(|n| n.address).collect() } else { BTreeSet::new() };
                h.push((t, b.len(), members));
                if h.len() > 40 {
                    h.remove(0);
                }
            }
            let mut now_held: BTreeMap<std::net::Ipv4Addr, BTreeSet<Id>> = BTreeMap::new();
            for tb in [&s.routing_table, &s.signed_peers_routing_table] {
                for (_, b) in &tb.buckets {
                    for n in b {
                        now_held.entry(*n.address.ip()).or_default().insert(n.id);
                    }
                }
            }
            for (ip, ids) in now_held {
                let h = slot_hist.entry((*x, ip)).or_default();
                h.push((t, ids));
                if h.len() > 40 {
                    h.remove(0);
                }
            }
            // (e) the table is refreshed every 15 minutes: a node with a bootstrap list that has been up
            //     (and not frozen) for a whole window has sent a find_node for its own id within it
            {
                let window = ((MIN15 + 90 * SEC) as f64 * skew) as u64;
                let frozen = suspend_windows.iter().any(|(v, a, e)| v == x && *e + 60 * SEC + window > t && *a < t);
                if !s.bootstrap.is_empty() && !frozen && t >= born[x] + window + 60 * SEC {
                    refresh_checks += 1;
                    let last = last_refresh.get(x).copied().unwrap_or(0);
                    if last + window < t {
                        report.violate(
                            "healthy-table",
                            "no-refresh-lookup-for-15-minutes",
                            format!("at t={}s node {} (up since t={}s) has not sent a find_node for its own id for {:.1} min: the 15-minute table refresh did not happen", t / SEC, sim.node_addr(*x), born[x] / SEC, (t - last) as f64 / (60.0 * SEC as f64)),
                        );
                        break 'outer;
                    }
                }
            }
            // (b) dead incarnations disappear within 15 + 5 + 1 minutes
            for (p, ids) in &old_ids {
                for (oid, since) in ids {
                    // a node that was suspended works through queued datagrams when it resumes and may
                    // (re)learn a peer that died meanwhile: its clock for that peer starts then
                    let resumed = suspend_windows.iter().filter(|(v, _, _)| v == x).map(|(_, _, e)| *e + 30 * SEC).max().unwrap_or(0);
                    let since = &(*since).max(resumed.min(t));
                    let limit = ((21 * 60 * SEC) as f64 * skew) as u64;
                    if t > since + limit {
                        let paddr = sim.node_addr(*p);
                        for (tbl, name) in [(&s.routing_table, "routing table"), (&s.signed_peers_routing_table, "signed-peers routing table")] {
                            if tbl.buckets.iter().any(|(_, b)| b.iter().any(|n| n.address == paddr && n.id == *oid)) {
                                report.violate(
                                    "healthy-table",
                                    "dead-peer-still-in-table",
                                    format!("at t={}s node {} still has the dead incarnation {} @ {paddr} in its {name}, {:.1} min after it stopped answering", t / SEC, sim.node_addr(*x), hex8(oid), (t - since) as f64 / (60.0 * SEC as f64)),
                                );
                                break 'outer;
                            }
                        }
                    }
                }
            }
            // (c) restarted peers are re-learned under their new id
            for (p, _) in restarted_at.iter() {
                if let Some(nid) = current_id.get(p) {
                    let paddr = sim.node_addr(*p);
                    // several ids may sit on one address (old and new): look at all of them
                    let has = s.routing_table.buckets.iter().any(|(_, b)| b.iter().any(|n| n.address == paddr && n.id == *nid));
                    if p != x && has {
                        relearned.insert(*p);
                    }
                }
            }
        }
        for (p, at) in &restarted_at {
            // a partition during the re-learning window postpones it
            let disturbed = partition_windows.iter().any(|(a, b)| *a < at + 65 * 60 * SEC && *b + 20 * 60 * SEC > *at);
            if sim.alive(*p) && t > at + 65 * 60 * SEC && !relearned.contains(p) && *hub_alive.borrow() && !disturbed {
                report.violate("healthy-table", "restarted-peer-not-relearned", format!("at t={}s no other node has {} under its new id in its routing table, {} min after its restart", t / SEC, sim.node_addr(*p), (t - at) / (60 * SEC)));
                break 'outer;
            }
        }
        // (d) empty tables
        // with round trips above the initial timeout the adaptive timeout needs some failed attempts
        // to converge (only late replies feed the estimator)
        let limit = if slow_links { 90 * SEC } else { *tau.borrow() + 2 * SEC + SEC };
        for (h, (dur, at)) in worst_empty.borrow().iter() {
            // (not in busy runs: their snapshots are 30 s apart, emptiness in between is not observed)
            if *dur > limit && !busy {
                report.violate(
                    "healthy-table",
                    "table-stayed-empty",
                    format!("node {} had an empty routing table for {:.1} s (until t={}s) although its bootstrap node was alive (limit: request timeout + 2 s = {:.1} s)", sim.node_addr(*h), *dur as f64 / SEC as f64, at / SEC, limit as f64 / SEC as f64),
                );
                break 'outer;
            }
        }
        for h in &all {
            if let Some(d) = sim.died(*h) {
                if !d.starts_with("build") {
                    report.violate("node-died", "node-actor-panicked", format!("node {} died: {d}", sim.node_addr(*h)));
                    break 'outer;
                }
            }
        }
        let _ = &by_addr;
    }
    report.probe("answered_within_window_checks", answered_within_window_checks);
    report.probe("refresh_every_15_minutes_checks", refresh_checks);
    report.probe("virtual_hours", hours);
    if slow_links {
        report.probe("slow_link_runs", 1);
    }
    report.probe("exempt_ip_slot_held_by_other_id", ip_limited);
    report.probe("exempt_bucket_full_at_answer_time", capacity_limited);
    report.probe("crashes_planned", crash_times.len() as u64);
    report.probe("restarts_relearned", relearned.len() as u64);
    report.nontrivial = answered_within_window_checks > 0;
    report.plan_dump = Some(plan_lines.join("\n"));
    report.sample = Some(json!({"plan": plan_lines}));
    finish(&sim, report)
}

pub fn property() -> Property {
    Property {
        id: "C14",
        run,
        budget: |t| match t {
            Tier::Quick => 240,
            Tier::Thorough => 20_000,
        },
        wall_cap_s: |t| match t {
            Tier::Quick => 100.0,
            Tier::Thorough => 1700.0,
        },
        info: || PropInfo {
            floors: vec![],
            rule: "one run = 3..16 real servers + 0..4 clients (private or public plan, optional clock skew, staggered joins) running for 1..3 (thorough 2..6) virtual hours; 0..5 servers crash at seeded instants, half of them restart (same address, fresh state, new id) 1 s..20 min later; 0..30 lookups at seeded instants. Every 30 virtual seconds: (a) each peer that answered a node's lookup or ping request 3 s..(15 min - 30 s, on the node's skewed clock) ago is still in that node's routing table unless its bucket is full or the table re-keyed; (b) dead incarnations are gone from every table 21 min after they stopped; (c) a restarted peer is in some other node's table under its new id within 65 min (old id expiry + a possibly blocked IP slot + one refresh); (d) no table stays empty longer than the largest request timeout + 2 s while the bootstrap node is alive. Non-trivial = rule (a) was evaluated at least once; distinct = delivery-order hash".into(),
            assumptions: vec!["'answered' = a response to a find_node/get/get_peers/get_signed_peers/ping request delivered with RTT < 400 ms".into()],
        },
    }
}
