//! C09 — only the addressed peer can answer a request, once.
//! A victim performs lookups and puts against scripted genuine peers while a spoofer, who sees
//! each request's (sequential) transaction id, injects responses / errors from a wrong IP, a wrong
//! port or an unrelated address — before, between and after the genuine reply — carrying markers:
//! a marker responder id, marker nodes whose addresses log any contact, a marker `ip` vote,
//! authentic values nobody genuinely holds, and acks. No marker may ever have an effect, the
//! genuine reply must still count afterwards, and duplicates are consumed once.

use std::cell::RefCell;
use std::net::{Ipv4Addr, SocketAddrV4};
use std::rc::Rc;

use serde_json::json;

use crate::bencode::Value;
use crate::krpc::{self, Id, Item, Krpc, MsgOpts};
use crate::props::common::*;
use crate::props::{PropInfo, Property, Report, RunCtx, Tier};
use crate::rawnet::*;
use crate::rng::Rng;
use crate::sim::*;

fn run(ctx: &RunCtx) -> Report {
    let mut report = Report::default();
    let mut rng = Rng::new(ctx.seed);
    let late_wish = rng.chance(1, 3);
    let net = NetCfg {
        latency_min_us: 500,
        latency_max_us: rng.range(2_000, 80_000),
        dup_ppm: if late_wish {
            rng.range(200_000, 500_000) as u32
        } else if rng.chance(1, 2) {
            rng.range(50_000, 400_000) as u32
        } else {
            0
        },
        ..NetCfg::default()
    };
    let sim = Sim::new(ctx.seed, net.clone());
    sim.set_snap_mode(SnapMode::Every);
    let public = rng.chance(1, 2);
    let rawnet = RawNet::new();
    let n_peers = rng.usize(1, 8);
    let mut addrs = vec![];
    for i in 0..n_peers {
        let ip = if public { pub_ip(&mut rng) } else { priv_ip(40 + i) };
        let addr = SocketAddrV4::new(ip, 6000 + i as u16);
        let id = if public { krpc::bep42_id(ip, rng.id()) } else { rng.id() };
        let mut p = Peer::new(id, addr);
        p.k = 20;
        p.delay = rng.range(0, 200) * MS;
        rawnet.add(&sim, p);
        addrs.push(addr);
    }
    for i in 0..n_peers {
        rawnet.with_peer(i, |p| p.knows = (0..n_peers).collect());
    }
    // garbage contacts (1 run in 3): every peer also tells about addresses the OS refuses to send to
    // (port 0, the broadcast address), so some requests fail in `send_to`
    let garbage = rng.chance(1, 3);
    // objects
    let key = krpc::signing_key(rng.bytes(32).try_into().unwrap());
    let pk = key.verifying_key().to_bytes();
    let value = b"authentic immutable value".to_vec();
    let imm_target = krpc::immutable_target(&value);
    let item = Item::signed(&key, None, 9, b"authentic mutable value");
    let info_hash: Id = rng.id();
    // a target of its own: lookups of different kinds for one target share one query (see C01/C06)
    let mut find_target = imm_target;
    find_target[19] ^= 1;

    // scenario mode
    //  0: nobody genuinely holds anything; spoofs carry authentic data -> nothing may surface
    //  1: exactly one genuine holder; wrong-address spoofs race its reply -> value must surface
    //  2: writes: genuine storers silent, spoofed acks -> put must not be Ok
    //  3: writes: genuine storers ack, spoofed 301/302/203 errors -> put must be Ok
    let mode = rng.below(4);
    let holder = rng.usize(0, n_peers - 1);
    // late repliers (1 in 3 of the read runs): the peers form a chain, so the lookup lives for several
    // rounds, and one or two of them answer only after 0.5..1.6 s - later than the request timeout,
    // while younger requests keep the lookup alive - with duplication on. A late reply may or may not
    // be accepted (not judged); it must never be consumed twice.
    let late = mode <= 1 && n_peers >= 3 && late_wish;
    let mut late_peers: Vec<usize> = vec![];
    if late {
        for i in 0..n_peers {
            rawnet.with_peer(i, |p| {
                p.knows = (i + 1..(i + 3).min(n_peers)).collect();
                p.delay = rng.range(120, 450) * MS;
            });
        }
        late_peers.push(if rng.chance(1, 2) { holder } else { rng.usize(0, n_peers - 1) });
        if rng.chance(1, 3) {
            late_peers.push(rng.usize(0, n_peers - 1));
        }
        for i in &late_peers {
            rawnet.with_peer(*i, |p| p.delay = rng.range(520, 1600) * MS);
        }
        report.probe("late_replier_runs", 1);
    }
    if garbage {
        for i in 0..n_peers {
            let n = rng.usize(1, 3);
            let mut extra = vec![];
            for _ in 0..n {
                let mut id = rng.id();
                if rng.chance(1, 2) {
                    // close to the targets, so that it is among the candidates
                    id[..6].copy_from_slice(&imm_target[..6]);
                }
                let ip = if public { pub_ip(&mut rng) } else { priv_ip(5000 + rng.usize(0, 200)) };
                let addr = if rng.chance(1, 2) { SocketAddrV4::new(ip, 0) } else { SocketAddrV4::new(Ipv4Addr::BROADCAST, rng.range(1024, 60000) as u16) };
                let id = if public && rng.chance(1, 2) { krpc::bep42_id(*addr.ip(), id) } else { id };
                extra.push((id, addr));
            }
            rawnet.with_peer(i, |p| p.extra_nodes = extra);
        }
        report.probe("garbage_contact_runs", 1);
    }
    if mode == 1 {
        rawnet.with_peer(holder, |p| {
            p.immutable.insert(imm_target, value.clone());
            p.mutable.insert(item.target(), item.clone());
            p.peers.insert(info_hash, vec![SocketAddrV4::new(priv_ip(888), 888)]);
        });
    }
    if mode == 2 {
        for i in 0..n_peers {
            rawnet.with_peer(i, |p| p.put_reply = PutReply::Silent);
        }
    }

    // markers
    let marker_id: Id = [0xEE; 20];
    let marker_vote = SocketAddrV4::new(Ipv4Addr::new(6, 6, 6, 6), 6666);
    let marker_peer = SocketAddrV4::new(Ipv4Addr::new(66, 66, 66, 66), 6666);
    let n_markers = 3;
    let mut marker_nodes: Vec<(Id, SocketAddrV4)> = vec![];
    let mut marker_logs = vec![];
    for i in 0..n_markers {
        let ip = if public { pub_ip(&mut rng) } else { priv_ip(3000 + i) };
        let addr = SocketAddrV4::new(ip, 7000 + i as u16);
        let (_, log) = logging_raw(&sim, addr);
        marker_logs.push((addr, log));
        // ids very close to every target used, and BEP42-valid so that they would sort first
        let mut id = if public { krpc::bep42_id(ip, rng.id()) } else { rng.id() };
        if !public {
            id[..10].copy_from_slice(&imm_target[..10]);
        }
        marker_nodes.push((id, addr));
    }

    // victim
    let victim_ip = if public { pub_ip(&mut rng) } else { priv_ip(1) };
    let mut spec = NodeSpec::new(victim_ip, 6881);
    spec.server_mode = rng.chance(1, 3);
    spec.bootstrap = if late {
        let mut b: Vec<usize> = vec![0];
        b.extend(late_peers.iter().copied());
        b.sort();
        b.dedup();
        b.iter().map(|i| addrs[*i].to_string()).collect()
    } else {
        addrs.iter().map(|a| a.to_string()).collect()
    };
    let victim_addr = spec.addr();

    // spoofer: reacts to each request a genuine peer receives from the victim
    let spoof_rate = rng.range(30, 100);
    let spoofs: Rc<RefCell<Vec<String>>> = Default::default();
    let spoof_count = Rc::new(RefCell::new((0u64, 0u64, 0u64))); // (before-ish, after-ish, future-tid)
    report.elements = 1;
    let spoofing = ctx.enabled(0);
    {
        let mut hr = Rng::new(ctx.seed ^ 0x5b00f);
        let spoofs = spoofs.clone();
        let spoof_count = spoof_count.clone();
        let value = value.clone();
        let item = item.clone();
        let marker_nodes = marker_nodes.clone();
        rawnet.set_hook(Box::new(move |rctx, sh, idx, from, msg: &Krpc| {
            if !spoofing || from != victim_addr || hr.below(100) >= spoof_rate {
                return HookResult::Default;
            }
            let g = sh.peers[idx].addr;
            let gdelay = sh.peers[idx].delay;
            let q = msg.query_name().unwrap_or("").to_string();
            let tid = msg.tid_u32().unwrap_or(0);
            let n_spoofs = hr.usize(1, 3);
            for _ in 0..n_spoofs {
                let src = match hr.below(7) {
                    0 | 1 => SocketAddrV4::new(*g.ip(), g.port().wrapping_add(1)),
                    2 | 3 => SocketAddrV4::new(Ipv4Addr::from(u32::from(*g.ip()) ^ 1), g.port()),
                    4 | 5 => SocketAddrV4::new(Ipv4Addr::new(91, 7, hr.below(250) as u8, 1 + hr.below(250) as u8), hr.range(1024, 60000) as u16),
                    // the right address, but a transaction id that is not outstanding
                    _ => g,
                };
                // which tid: the observed one, or a guess at a future one
                let (use_tid, future) = if src == g {
                    // never issued during the run, or long consumed / sent to somebody else: an id below
                    // the current one that this peer never received (ids within 30 of the current one
                    // could still be on their way to it)
                    let mut stale: Option<u32> = None;
                    if tid > 40 && hr.chance(1, 2) {
                        for _ in 0..8 {
                            let c = hr.range(0, (tid - 31) as u64) as u32;
                            if !sh.peers[idx].requests.iter().any(|q| q.from == victim_addr && q.msg.tid_u32() == Some(c)) {
                                stale = Some(c);
                                break;
                            }
                        }
                    }
                    // or an *alias* of the live id: equal to it modulo 2^16 / 2^8 / 2^24, or with a high bit set
                    // (an id comparison on a truncated value would take it for the outstanding request)
                    if stale.is_none() && hr.chance(1, 2) {
                        let alias = match hr.below(6) {
                            0 => tid.wrapping_add(65_536),
                            1 => tid.wrapping_add(65_536 * hr.range(2, 40) as u32),
                            2 => tid ^ 0x0001_0000,
                            3 => tid | 0x8000_0000,
                            4 => tid.wrapping_add(1 << 24),
                            _ => tid.wrapping_add(256),
                        };
                        stale = Some(alias);
                    }
                    (stale.unwrap_or(tid + 500 + hr.range(0, 500) as u32), true)
                } else if hr.chance(3, 4) {
                    (tid, false)
                } else {
                    (tid + hr.range(1, 3) as u32, true)
                };
                // when: racing the genuine reply (its delay is known to the adversary here)
                let delay = match hr.below(3) {
                    0 => 0,
                    1 => gdelay / 2,
                    _ => gdelay + hr.range(0, 200) * MS,
                };
                let opts = MsgOpts {
                    version: Some(krpc::VERSION_RS6.to_vec()),
                    ro: None,
                    ip: Some(marker_vote),
                };
                let t = krpc::tid_bytes(use_tid);
                let is_put = matches!(q.as_str(), "put" | "announce_peer" | "announce_signed_peer");
                let bytes = if is_put {
                    if mode == 3 {
                        krpc::error(&t, *hr.pick(&[301i64, 302, 203]), "spoofed", &opts)
                    } else {
                        krpc::response(&t, Value::dict(vec![("id", Value::bytes(&marker_id))]), &opts)
                    }
                } else {
                    let mut r: Vec<(&str, Value)> = vec![("id", Value::bytes(&marker_id)), ("nodes", Value::Bytes(krpc::compact_nodes(&marker_nodes)))];
                    if q != "find_node" && q != "ping" {
                        r.push(("token", Value::str("spoo")));
                    }
                    match q.as_str() {
                        "get" => {
                            if msg.target() == Some(imm_target) {
                                r.push(("v", Value::bytes(&value)));
                            } else {
                                r.push(("v", Value::bytes(&item.v)));
                                r.push(("k", Value::bytes(&item.k)));
                                r.push(("sig", Value::bytes(&item.sig)));
                                r.push(("seq", Value::Int(item.seq)));
                            }
                        }
                        "get_peers" => r.push(("values", Value::List(vec![Value::Bytes(krpc::compact_addr(&marker_peer))]))),
                        _ => {}
                    }
                    if hr.chance(1, 6) {
                        krpc::error(&t, 201, "spoofed error", &opts)
                    } else {
                        krpc::response(&t, Value::dict(r), &opts)
                    }
                };
                {
                    let mut c = spoof_count.borrow_mut();
                    if future {
                        c.2 += 1;
                    } else if delay <= gdelay {
                        c.0 += 1;
                    } else {
                        c.1 += 1;
                    }
                }
                spoofs.borrow_mut().push(format!("t={:.1}ms spoof {q} tid={use_tid}{} from {src} (genuine {g}, genuine delay {}ms, spoof delay {}ms)", rctx.now as f64 / MS as f64, if future { " (guess)" } else { "" }, gdelay / MS, delay / MS));
                rctx.send_after(delay, src, victim_addr, bytes);
            }
            HookResult::Default
        }));
    }

    // invariant over every snapshot of the victim
    let bad: Rc<RefCell<Option<(String, String)>>> = Default::default();
    {
        let bad = bad.clone();
        let marker_addrs: Vec<SocketAddrV4> = marker_nodes.iter().map(|m| m.1).collect();
        sim.set_observer(Box::new(move |_h, now, s| {
            if bad.borrow().is_some() {
                return;
            }
            for t in [&s.routing_table, &s.signed_peers_routing_table] {
                for (_, b) in &t.buckets {
                    for n in b {
                        if n.id == marker_id || marker_addrs.contains(&n.address) {
                            *bad.borrow_mut() = Some(("marker-in-routing-table".into(), format!("at t={}ms the routing table contains marker {} @ {}", now / MS, krpc::hex(&n.id), n.address)));
                        }
                    }
                }
            }
            if s.public_address == Some(marker_vote) {
                *bad.borrow_mut() = Some(("marker-address-vote".into(), format!("at t={}ms public_address became the spoofed vote {marker_vote}", now / MS)));
            }
        }));
    }
    let victim = sim.add_node(spec);
    sim.run_for(3 * SEC);

    // calls
    let calls: Vec<u64> = match mode {
        0 | 1 => {
            let mut c = vec![0u64, 1, 2, 3];
            rng.shuffle(&mut c);
            c.truncate(rng.usize(1, 4));
            c
        }
        _ => {
            let mut c = vec![4u64, 5, 6];
            rng.shuffle(&mut c);
            c.truncate(rng.usize(1, 3));
            c
        }
    };
    let mut ops = vec![];
    for c in &calls {
        let op = match c {
            0 => sim.get_immutable(victim, imm_target),
            1 => sim.get_mutable(victim, pk, None, None),
            2 => sim.get_peers(victim, info_hash),
            3 => sim.find_node(victim, find_target),
            4 => sim.put_immutable(victim, value.clone()),
            5 => sim.put_mutable(victim, dht::MutableItem::new(&key, b"v", 10, None), None),
            _ => sim.announce_peer(victim, info_hash, Some(5000)),
        };
        ops.push((*c, op));
        if rng.chance(1, 2) {
            sim.run_ops(&[op], sim.now() + 60 * SEC);
        } else {
            sim.run_for(rng.range(0, 400) * MS);
        }
    }
    let ids: Vec<OpId> = ops.iter().map(|o| o.1).collect();
    let done = sim.run_ops(&ids, sim.now() + 120 * SEC);
    sim.run_for(2 * SEC);

    // ---- oracle
    if let Some((key, detail)) = bad.borrow().clone() {
        report.violate("spoof-effect", &key, detail);
    }
    for (addr, log) in &marker_logs {
        if let Some((t, from, _)) = log.borrow().first() {
            report.violate("spoof-effect", "marker-node-contacted", format!("at t={}ms {from} sent a datagram to marker node {addr}, which only spoofed responses mention", t / MS));
        }
    }
    let dup_fired = sim.stats().duplicated;
    // in runs with late repliers the adaptive request timeout may have dropped below any peer's
    // delay, so "the holder's value must surface" is not judged there (only at-most-once and no-effect are)
    let holder_late = late;
    // the lookup may legitimately ask the holder more than once (an address that is both in the
    // bootstrap list and among the candidates): at most one item per answered request
    let (holder_mutable_replies, holder_peers_replies): (usize, usize) = sim.with_trace(|tr| {
        let mut m = std::collections::BTreeSet::new();
        let mut p = std::collections::BTreeSet::new();
        for d in tr.iter().filter(|d| d.src == addrs[holder] && d.dst == victim_addr && d.fate == Fate::Delivered && d.dup_of.is_none()) {
            if let Some(k) = Krpc::parse(&d.bytes) {
                if k.is_response() && k.bytes_field("k").is_some() {
                    m.insert(k.tid_u32());
                }
                if k.is_response() && k.body.get("values").is_some() {
                    p.insert(k.tid_u32());
                }
            }
        }
        (m.len(), p.len())
    });
    for (c, id) in &ops {
        if let Some(p) = sim.with_op(*id, |o| o.panicked.clone()) {
            report.violate("api-panic", "api-call-panicked", format!("call {c} panicked: {p}"));
            continue;
        }
        match sim.take_outcome(*id) {
            Some(Outcome::Immutable(v)) => match mode {
                0 if v.is_some() => report.violate("spoof-effect", "spoofed-value-surfaced", "get_immutable returned a value that only spoofed responses carried".into()),
                1 if v.is_none() && !holder_late => report.violate("genuine-reply-lost", "genuine-reply-rejected-after-spoof", format!("get_immutable returned None although genuine peer {} holds the value and answered; spoofs: {:?}", addrs[holder], spoofs.borrow().iter().rev().take(4).collect::<Vec<_>>())),
                _ => {}
            },
            Some(Outcome::Mutable(items)) => match mode {
                0 if !items.is_empty() => report.violate("spoof-effect", "spoofed-value-surfaced", "get_mutable yielded an item that only spoofed responses carried".into()),
                1 => {
                    if items.is_empty() && holder_late {
                    } else if items.is_empty() {
                        report.violate("genuine-reply-lost", "genuine-reply-rejected-after-spoof", format!("get_mutable yielded nothing although genuine peer {} holds the item and answered", addrs[holder]));
                    } else if items.len() > holder_mutable_replies.max(1) {
                        report.violate("exactly-once", "reply-consumed-twice", format!("get_mutable yielded {} items but the only genuine holder answered {holder_mutable_replies} request(s) with the item (duplicated datagrams in this run: {dup_fired})", items.len()));
                    }
                }
                _ => {}
            },
            Some(Outcome::Peers(batches)) => {
                if batches.iter().any(|b| b.1.contains(&marker_peer)) {
                    report.violate("spoof-effect", "spoofed-value-surfaced", "get_peers yielded the marker peer that only spoofed responses carried".into());
                }
                if mode == 1 {
                    if batches.is_empty() && holder_late {
                    } else if batches.is_empty() {
                        report.violate("genuine-reply-lost", "genuine-reply-rejected-after-spoof", format!("get_peers yielded nothing although genuine peer {} holds a peer and answered", addrs[holder]));
                    } else if batches.len() > holder_peers_replies.max(1) {
                        report.violate("exactly-once", "reply-consumed-twice", format!("get_peers yielded {} batches but the only genuine holder answered {holder_peers_replies} request(s) with values", batches.len()));
                    }
                }
            }
            Some(Outcome::Nodes(nodes)) => {
                if nodes.iter().any(|n| n.id().as_bytes() == &marker_id || marker_nodes.iter().any(|m| m.1 == n.address())) {
                    report.violate("spoof-effect", "marker-node-returned", "find_node returned a node that only spoofed responses mention".into());
                }
            }
            Some(Outcome::PutImmutable(r)) => {
                if mode == 2 && r.is_ok() {
                    report.violate("spoof-effect", "spoofed-ack-counted", "put_immutable returned Ok although every genuine storer stayed silent; only spoofed acks arrived".into());
                }
                if mode == 3 && r.is_err() {
                    report.violate("genuine-reply-lost", "genuine-ack-lost-after-spoof", format!("put_immutable failed ({r:?}) although every genuine storer acknowledged; spoofed errors were injected"));
                }
            }
            Some(Outcome::PutMutable(r)) => {
                if mode == 2 && r.is_ok() {
                    report.violate("spoof-effect", "spoofed-ack-counted", "put_mutable returned Ok although every genuine storer stayed silent".into());
                }
                if mode == 3 && r.is_err() {
                    report.violate("genuine-reply-lost", "genuine-ack-lost-after-spoof", format!("put_mutable failed ({r:?}) although every genuine storer acknowledged"));
                }
            }
            Some(Outcome::Announce(r)) => {
                if mode == 2 && r.is_ok() {
                    report.violate("spoof-effect", "spoofed-ack-counted", "announce_peer returned Ok although every genuine storer stayed silent".into());
                }
                if mode == 3 && r.is_err() {
                    report.violate("genuine-reply-lost", "genuine-ack-lost-after-spoof", format!("announce_peer failed ({r:?}) although every genuine storer acknowledged"));
                }
            }
            _ => {}
        }
    }
    if let Some(d) = sim.died(victim) {
        report.violate("node-died", "victim-actor-panicked", format!("victim died: {d}"));
    } else if !done {
        report.violate("hang", "call-did-not-finish", "a call did not finish within 120 s".into());
    }
    let c = *spoof_count.borrow();
    report.probe("spoofs_racing_before_genuine_reply", c.0);
    report.probe("spoofs_after_genuine_reply", c.1);
    report.probe("spoofs_guessed_future_tid", c.2);
    report.probe(&format!("mode_{mode}"), 1);
    report.nontrivial = c.0 + c.1 > 0;
    let plan = format!(
        "mode={mode} victim={victim_addr} server_mode={} peers={:?} holder={holder} calls={calls:?} dup_ppm={} spoof_rate={spoof_rate}% spoofing={spoofing}\n{}",
        sim.node_spec(victim).server_mode,
        addrs,
        net.dup_ppm,
        spoofs.borrow().join("\n")
    );
    report.sample = Some(json!({"mode": mode, "calls": calls, "spoofs": spoofs.borrow().iter().take(5).collect::<Vec<_>>()}));
    report.plan_dump = Some(plan);
    finish(&sim, report)
}

pub fn property() -> Property {
    Property {
        id: "C09",
        run,
        budget: |t| match t {
            Tier::Quick => 12000,
            Tier::Thorough => 500_000,
        },
        wall_cap_s: |t| match t {
            Tier::Quick => 60.0,
            Tier::Thorough => 1500.0,
        },
        info: || PropInfo {
            floors: vec![],
            rule: "one run = a victim (client/server, private/public plan) with 1..8 scripted genuine peers (response delays 0..200 ms) and a spoofer that sees each request's tid and injects 1..3 responses/errors per request from wrong port / adjacent IP / unrelated address, with the observed or a guessed future tid, timed before, between or after the genuine reply; four modes (nobody holds data + spoofs carry authentic data; single genuine holder racing spoofs; silent storers + spoofed acks; acking storers + spoofed errors); duplication of genuine replies on. Non-trivial = at least one spoof with a live tid was injected; distinct = delivery-order hash at the victim".into(),
            assumptions: vec!["late genuine replies (after timeout, before GC) are accepted by design and not judged".into()],
        },
    }
}
