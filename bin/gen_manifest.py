#!/usr/bin/env python3
"""Regenerates /verif/MANIFEST.json from the table below (kept in one place so it stays valid)."""
import json, subprocess

HOOK_COMMITS = subprocess.run(["git", "-C", "/repo", "log", "--format=%h %s", "--grep=^hook:"], capture_output=True, text=True).stdout.strip().splitlines()

CLAIMED = {
    "C01": ("§4 C01", "Seeded exploration of put-then-get over real networks (1..20 servers + 0..30 clients exact verdict; 50..300 servers judged by success rate against a floor of 0.75, measured baseline 0.96), all four data kinds, crash sets (random, all-ackers-but-one, hub, non-ackers) with empty restarts, readers with lookups already in flight; precondition (a live acker reachable through live tables of the kind the lookup walks) evaluated from snapshots; two open known findings (queries keyed by target only).",
            "deterministic simulation with crash/restart fault injection, availability oracle over trace + snapshots"),
    "C12": ("§4 C12", "Always-on invariant over every snapshot (structure, bucket placement, capacity, size/iteration/is_empty agreement, per-IP Sybil limits) and every pair of consecutive snapshots (an entry vanishes only when stale or on re-key; a full bucket replaces only its stale head; a re-added known node has age zero right after the request that re-added it) of real servers whose tables are driven through the protocol path by adversarial find_node streams (clustered ids, repeated ids, many ids per IP, secure/insecure), across the 15-minute boundary and a re-key.",
            "deterministic simulation with virtual clock, adversarial request streams, per-step snapshot invariants"),
    "C14": ("§4 C14", "Seeded exploration of 1..6 virtual hours of 3..16-node networks with crashes, restarts, lookups and clock skew; every 30 virtual seconds: answered-within-15-min peers still present (capacity / IP-slot / re-key exempt), dead incarnations gone after 21 min, restarted peers re-learned within 40 min, no table empty beyond timeout + 2 s.",
            "deterministic simulation over virtual hours with crash/restart faults, timeline oracle over trace + snapshots"),
    "C13": ("§4 C13", "Seeded exploration of join schedules (sequential, staggered, simultaneous, late joiners), sizes 1..20 (+0..30 clients) and 50..300, private/public IP plans, dead bootstrap entries: bootstrapped()/non-empty table, first node learns joiners, strongly connected knows-graph, every-server-queried for <= 20 servers, all-dead bootstrap list reports false within the horizon; slow links (round trips above the initial timeout), junk bootstrap entries, bind conflicts, and an early-bird joiner whose bootstrap server starts later while silent requesters fill its signed-peers table.",
            "deterministic simulation, seeded join-schedule sampling, graph + trace oracle"),
    "C02": ("§4 C02", "Seeded exploration with Byzantine scripted responders: every item surfaced by the six read APIs is independently re-verified (hash / key / salt / signature / target) and authentic replicas must still surface; catalogue of 22 forgeries, any subset of responders, any arrival order.",
            "deterministic simulation with Byzantine-peer fault injection, independent re-verification oracle"),
    "C16": ("§4 C16", "Seeded exploration of arrival orders of 1..8 authentic replicas (gaps, duplicates, equal-seq ties) for the async API and, through a sequenced helper thread, the sync API; every third run enumerates (2..6 items) x (7 seq patterns incl. i64 boundary seqs) x (every arrival permutation) x (both API flavours) from the run index; long streams and calls joining the node's own in-flight put; expected value computed from the trace of delivered replies.",
            "deterministic simulation, seeded delivery-order sampling vs. fold model"),
    "C03": ("§4 C03", "Seeded exploration of request histories against one real server, checked in lock-step with a reference BEP5/BEP44 storage model (reply class per request, store contents after every consumed datagram). Samples, does not enumerate: a clean batch is evidence, not proof.",
            "deterministic simulation, seeded history sampling vs. reference model (lock-step over the consumed-datagram order)"),
    "C04": ("§4 C04", "Seeded exploration of mutable put/get histories (seq 0..5, cas none/match/mismatch, 2 keys x 2 salts, capacity 1/2/default) with duplication/reordering/loss against a BEP44 state machine; stored seq monotonicity follows from store equality after every step.",
            "deterministic simulation, seeded history sampling vs. BEP44 state machine"),
    "C05": ("§4 C05", "Seeded exploration: server- and client-mode victims in a live network receive a barrage from a structured hostile-datagram catalogue (18 message kinds x every field x 18 type/length confusions, walked across runs), grammar-random and byte-level input, corruption of real traffic, and Byzantine replies to their own in-flight requests; verdict = no actor panic, no API-future panic, process alive, ping and local calls work afterwards.",
            "deterministic simulation with injected/corrupted/Byzantine datagram faults, liveness + panic oracle"),
    "C06": ("§4 C06", "Seeded exploration of overlapping API calls (12 kinds, colliding targets) under loss, duplication, delay beyond the timeout, corruption, silent/garbage/error-answering peers, caller stalls and clock skew; every future must resolve and every stream end by a horizon computed per run from the reported request timeout and the number of addresses contacted; panic-free; streams yield at most one item per accepted value-bearing reply. Enumerated sweep over one small scenario family: every single datagram fault and peer crash, and in the thorough tier every pair of single faults of one scenario per 8192 elements. Held (undrained) streams; a run that blocks in real time is caught by a watchdog and reported as process-hang.",
            "deterministic simulation with network/peer/clock fault injection, bounded-liveness and exactly-once oracle"),
    "C18": ("§4 C18", "Seeded exploration of four families: client-mode silence and ro marking under every request kind; read-only requesters never in server tables (first node learns normal requesters); ro=1 replies contribute nothing; adaptive mode over 31..50 virtual minutes on a reachable address, behind a restricted-cone NAT without hairpin, and under majority wrong votes.",
            "deterministic simulation with virtual clock and NAT model, trace + snapshot + Info oracle"),
    "C20": ("§4 C20", "Snapshot invariants (cache <= 1000, stores within capacity, size/subnet counters equal the aggregate recomputed from the cached lookups, no wrap, Info agrees) over mixed faulty workloads, >1000-target cache rolls, hours of periodic self lookups and store floods; leak check at quiescence (no lookups, puts, parked callers, unexpired in-flight requests) incl. cancelled callers.",
            "deterministic simulation, per-step snapshot invariants and quiescence check"),
    "C17": ("§4 C17", "Seeded exploration of the placement of a second put_mutable relative to the first call's lifetime (same step, lookup, store phase, after completion; decided exactly from step counters) x item relation x cas x storer reply family, plus overlapping non-mutable puts; rule-table oracle.",
            "deterministic simulation, seeded call-placement sampling vs. rule table"),
    "C07": ("§4 C07", "Seeded exploration of lookups by a real node in loss-free networks of 2..300 scripted peers with partial knowledge, adversarial id plans and shuffled node lists; closure (every one of the 20 best known entries queried, no address twice), reported-list order and write-destination prefix computed from the lookup's own trace.",
            "deterministic simulation, seeded topology/arrival-order sampling, exact trace oracle"),
    "C11": ("§4 C11", "Wire monitor: every read reply of real servers compared with the harness's own secure-first/XOR selection from the table snapshot of the same step (tables filled to >20 entries through the real protocol path), ageing runs (stale members still in the table), plus the lookup-side accumulator order through the C07 scenario and a Sybil-listings scenario (one id under two addresses of differing BEP42 class). Stated reach: take_until_secure only for parameter values real nodes compute.",
            "deterministic simulation, per-step snapshot vs. wire monitor"),
    "C08": ("§4 C08", "Seeded exploration of ack/error/silence plans over 1..12 scripted storers plus real servers under loss, duplication and late replies, and >255-replica puts through extra_nodes with exactly 255/256/257/511/512/513 ackers; Ok/CasFailed/NotMostRecent/query-error verdict and the token-bearing-targets rule recomputed from the datagram trace; real ackers read back; overlapping announce_peer calls with different ports (Ok needs an acknowledged store request of its own).",
            "deterministic simulation with loss/duplication/delay faults and scripted storers, trace-recomputed verdict"),
    "C09": ("§4 C09", "Seeded exploration with a spoofing adversary that sees every transaction id: responses/errors from wrong port, adjacent IP or unrelated address, with live or guessed tids, before/between/after the genuine reply, plus duplication of genuine replies; marker oracle (no contact to marker nodes, no marker in routing tables or address votes, no spoofed value or ack counted) and genuine-reply-still-accepted / consumed-once oracle.",
            "deterministic simulation with spoofed-datagram injection and duplication faults, marker oracle"),
    "C15": ("§4 C15", "Seeded exploration of token timelines (ages 0..25 min, rotations at arbitrary instants of a skewed virtual clock, close/shared/unrelated IPs, byte-level token mutations, tokens of another server) against a timeline model: must-accept <= 5 min, must-reject > 10 min + 2*gap, wrong IP / foreign / mutated -> 203.",
            "deterministic simulation with virtual clock, seeded timeline sampling vs. token model"),
}

# later extensions of the checks (appended to the level texts above)
EXTRA = {
    "C01": " Also: readers with a put for the same key in flight; a second announcer behind the writer's IP. Reads up to 75 virtual minutes after the write. With the same lookup in flight both callers are judged.",
    "C02": " Also: a listener-less lookup (get_closest_nodes) that a get_immutable joins; the Byzantine-voted address pings the reader. A veteran tail (more than 1000 further lookups, then recent targets asked again). Another info hash read afterwards.",
    "C03": " Also: announce_peer boundary ports; exact lazy-rotation count in the token model. A request filter whose verdict depends on the request; the server's own application writing a key.",
    "C04": " Every second run is one element of the exhaustive enumeration of histories over a 40-symbol alphabet (put key x seq x cas x value, get key x filter): depth <= 2 x capacity 1|2 in the quick tier, depth 3 in the thorough tier; the rest is sampled.",
    "C05": " Also: generous peers (60..75 extra nodes per lookup answer) and well-formed wrong-kind replies. Future-dated valid signed announcements read before their timestamp; a slow consumer holding a value stream. An ageing tail (peers fall silent, 21..26 minutes, then probes).",
    "C06": " Also: a public caller that re-keys to a BEP42 id in the middle of a train of bootstrapped() calls; bursts of 132..170 lookups on distinct targets. A deep network (a lookup contacting more than 200 addresses); get_mutable with a seq filter.",
    "C07": " Also: a late-answer family (relays with dead contacts keep the lookup alive while late peers answer after 0.52-1.4 s; late answers that certainly count are decided from the trace, ambiguous ones suspend the verdicts); the same lookup repeated after some of its answerers died. A busy socket (several other lookups with slow peers on the same node).",
    "C08": " Also: token-bearing extra nodes for mutable puts (majority over all store requests), a put started from the cache while a lookup of the same target comes back empty-handed (rule: no query error while a store request is outstanding that is then acknowledged in time), read-only flagged write replies. A key that already holds an item with the same seq and another value. Very slow links judged with the request timeout the writer itself reports, two of three such runs with the force-compaction fault point (every poll compacts the in-flight request list).",
    "C11": " Also: mixed address classes (LAN / loopback / link-local and routable peers and readers) and same-IP same-prefix sibling peers. Stale aliases (a live peer listed under an id it no longer has). A lone peer leaving its bucket, then the first round of a fresh lookup checked against the table snapshot.",
    "C09": " Also: late repliers, garbage contacts, tid aliases on veteran sockets, and an asked-again family (a peer slow on one request is asked again before its late answer arrives).",
    "C12": " Also: refresh rule (a re-added known node has age zero), scripted peers restarting under a new id on their address.",
    "C17": " Also: warm cache (both puts start from cached closest nodes); a call refused with ConflictRisk has not had its item sent.",
    "C13": " Also: promotion runs (adaptive nodes that switched to server mode at their first 15-minute refresh are held by another table and queried by lookups); aged large networks (90..140 servers, 21..44 virtual minutes, the knows-graph stays strongly connected). Every in-time responder of a joiner is in its tables after the bootstrap. The early-bird node asked before its bootstrap node is up.",
    "C14": " Also: busy-node runs (a lookup every 200-450 ms for a virtual hour with a peer dead for good), partitions, suspensions, slow links; rule (e): a find_node for the node's own id within every 15-minute window.",
    "C15": " Also: exact lazy-rotation count (must-reject when two rotations certainly lie between issue and use), guessed-token floods and requester crowds between issue and use, re-key of the server in the middle of a history.",
    "C16": " Also: a late-holder family (the newest item arrives after the request timeout while the lookup is alive). Several callers sharing one lookup. A forger replica (authentic key and signature over other content).",
    "C18": " Also: slow path to the node's own address; wrong address voted for the first 20..280 s. A reachable node most of whose advertised peers are dead. The node's own address listed under a previous incarnation's id.",
    "C20": " Also: store floods against mid-size and default per-info-hash capacities; an address-vote change with a put riding on a find_node.",
}

NOT_APPLICABLE = {
    "C10": "Pure function of the message value (encode/decode round trip): no schedule, clock, fault or second party; deciding it is input enumeration, outside deterministic simulation (DESIGN §4 C10).",
    "C19": "Pure functions of ids, strings and IPs (XOR metric, hex parsing, BEP42): nothing to schedule, delay, crash or interleave (DESIGN §4 C19).",
}

# properties designed in DESIGN.md whose checks are not built yet are listed as not claimed (reason says so)
PENDING = []

checks = []
for pid, (ref, text, tech) in sorted(CLAIMED.items()):
    checks.append({
        "property_id": pid,
        "quick_cmd": f"/verif/bin/check {pid} quick",
        "thorough_cmd": f"/verif/bin/check {pid} thorough",
        "evidence_file": f"/verif/evidence/{pid}.json",
        "replay_cmd_template": "/verif/bin/check replay {path}",
        "engine": "mlsim",
        "level_claimed": {"category": "exploration", "text": text + EXTRA.get(pid, ""), "design_ref": ref},
        "level_note": "Trusted base: the simulator (/verif/sim), the cfg(mainline_verif) seams in /repo/src/verif.rs, corosensei, ed25519-dalek/sha1_smol for the oracle's re-verification. Real code under test: everything in /repo/src except the OS socket, clocks, entropy, hash-map hasher and thread spawn.",
        "technique": tech,
    })

na = [{"property_id": k, "reason": v} for k, v in sorted(NOT_APPLICABLE.items())]
for p in PENDING:
    if p not in CLAIMED:
        na.append({"property_id": p, "reason": "not claimed yet: the simulation check designed in DESIGN.md §4 is not built/validated at this commit"})
na.sort(key=lambda x: x["property_id"])

manifest = {
    "version": 1,
    "setup_cmd": "/verif/bin/check build",
    "hooks": {
        "guard": "--cfg mainline_verif",
        "enable": "RUSTFLAGS='--cfg mainline_verif' (set in /verif/sim/.cargo/config.toml); the harness depends on dht = { path = \"/repo\" }",
        "baseline_off_cmd": "cd /repo && cargo test --workspace --no-fail-fast --offline",
        "source_commits": [l.split()[0] for l in HOOK_COMMITS],
        "add_only": True,
    },
    "engines": [{
        "name": "mlsim",
        "path": "/verif/sim",
        "serves_properties": sorted(CLAIMED.keys()),
        "kind_free_text": "deterministic discrete-event simulator: real dht actors as coroutines on a virtual clock and an in-memory UDP network with seeded faults; oracles over the datagram trace, per-step snapshots and API results",
    }],
    "checks": checks,
    "not_applicable": na,
    "notes": "Exit 0 = held on everything explored; 1 = VIOLATION line + replay file under /verif/replays; 2 = build/harness/determinism error. VERIF_SEED and VERIF_TIER are honoured. Known findings: /verif/known_findings.json.",
}
json.dump(manifest, open("/verif/MANIFEST.json", "w"), indent=1)
print("claimed:", sorted(CLAIMED.keys()))
