//! Independent bencode reader/writer (written from BEP 3, not from the crate's codec).

#[derive(Clone, Debug, PartialEq)]
pub enum Value {
    Int(i64),
    Bytes(Vec<u8>),
    List(Vec<Value>),
    /// Key order is kept as given so that non-canonical input can be crafted.
    Dict(Vec<(Vec<u8>, Value)>),
}

impl Value {
    pub fn bytes(b: &[u8]) -> Value {
        Value::Bytes(b.to_vec())
    }
    pub fn str(s: &str) -> Value {
        Value::Bytes(s.as_bytes().to_vec())
    }
    pub fn dict(mut items: Vec<(&str, Value)>) -> Value {
        items.sort_by(|a, b| a.0.as_bytes().cmp(b.0.as_bytes()));
        Value::Dict(
            items
                .into_iter()
                .map(|(k, v)| (k.as_bytes().to_vec(), v))
                .collect(),
        )
    }
    pub fn get(&self, key: &str) -> Option<&Value> {
        match self {
            Value::Dict(items) => items
                .iter()
                .find(|(k, _)| k.as_slice() == key.as_bytes())
                .map(|(_, v)| v),
            _ => None,
        }
    }
    pub fn get_mut(&mut self, key: &str) -> Option<&mut Value> {
        match self {
            Value::Dict(items) => items
                .iter_mut()
                .find(|(k, _)| k.as_slice() == key.as_bytes())
                .map(|(_, v)| v),
            _ => None,
        }
    }
    /// Insert or replace, keeping keys sorted.
    pub fn set(&mut self, key: &str, value: Value) {
        if let Value::Dict(items) = self {
            if let Some(slot) = items.iter_mut().find(|(k, _)| k.as_slice() == key.as_bytes()) {
                slot.1 = value;
            } else {
                items.push((key.as_bytes().to_vec(), value));
                items.sort_by(|a, b| a.0.cmp(&b.0));
            }
        }
    }
    pub fn remove(&mut self, key: &str) -> Option<Value> {
        if let Value::Dict(items) = self {
            if let Some(pos) = items.iter().position(|(k, _)| k.as_slice() == key.as_bytes()) {
                return Some(items.remove(pos).1);
            }
        }
        None
    }
    pub fn as_bytes(&self) -> Option<&[u8]> {
        match self {
            Value::Bytes(b) => Some(b),
            _ => None,
        }
    }
    pub fn as_int(&self) -> Option<i64> {
        match self {
            Value::Int(i) => Some(*i),
            _ => None,
        }
    }
    pub fn as_list(&self) -> Option<&[Value]> {
        match self {
            Value::List(l) => Some(l),
            _ => None,
        }
    }

    pub fn encode(&self) -> Vec<u8> {
        let mut out = Vec::new();
        self.encode_into(&mut out);
        out
    }
    pub fn encode_into(&self, out: &mut Vec<u8>) {
        match self {
            Value::Int(i) => {
                out.push(b'i');
                out.extend_from_slice(i.to_string().as_bytes());
                out.push(b'e');
            }
            Value::Bytes(b) => {
                out.extend_from_slice(b.len().to_string().as_bytes());
                out.push(b':');
                out.extend_from_slice(b);
            }
            Value::List(l) => {
                out.push(b'l');
                for v in l {
                    v.encode_into(out);
                }
                out.push(b'e');
            }
            Value::Dict(items) => {
                out.push(b'd');
                for (k, v) in items {
                    out.extend_from_slice(k.len().to_string().as_bytes());
                    out.push(b':');
                    out.extend_from_slice(k);
                    v.encode_into(out);
                }
                out.push(b'e');
            }
        }
    }
}

#[derive(Debug, Clone, PartialEq)]
pub struct ParseError(pub &'static str, pub usize);

pub struct Parsed {
    pub value: Value,
    /// All dictionaries had strictly ascending keys and integers were canonical.
    pub canonical: bool,
}

pub fn parse(input: &[u8]) -> Result<Parsed, ParseError> {
    let mut p = Parser {
        input,
        pos: 0,
        canonical: true,
        depth: 0,
    };
    let value = p.value()?;
    if p.pos != input.len() {
        return Err(ParseError("trailing bytes", p.pos));
    }
    Ok(Parsed {
        value,
        canonical: p.canonical,
    })
}

struct Parser<'a> {
    input: &'a [u8],
    pos: usize,
    canonical: bool,
    depth: usize,
}

impl Parser<'_> {
    fn peek(&self) -> Result<u8, ParseError> {
        self.input
            .get(self.pos)
            .copied()
            .ok_or(ParseError("unexpected end", self.pos))
    }
    fn value(&mut self) -> Result<Value, ParseError> {
        self.depth += 1;
        if self.depth > 64 {
            return Err(ParseError("too deep", self.pos));
        }
        let r = match self.peek()? {
            b'i' => {
                self.pos += 1;
                let start = self.pos;
                while self.peek()? != b'e' {
                    self.pos += 1;
                }
                let s = std::str::from_utf8(&self.input[start..self.pos])
                    .map_err(|_| ParseError("int utf8", start))?;
                let i: i64 = s.parse().map_err(|_| ParseError("int", start))?;
                if i.to_string() != s {
                    self.canonical = false;
                }
                self.pos += 1;
                Value::Int(i)
            }
            b'l' => {
                self.pos += 1;
                let mut l = Vec::new();
                while self.peek()? != b'e' {
                    l.push(self.value()?);
                }
                self.pos += 1;
                Value::List(l)
            }
            b'd' => {
                self.pos += 1;
                let mut items: Vec<(Vec<u8>, Value)> = Vec::new();
                while self.peek()? != b'e' {
                    let k = self.bytes()?;
                    let v = self.value()?;
                    if let Some(last) = items.last() {
                        if last.0 >= k {
                            self.canonical = false;
                        }
                    }
                    items.push((k, v));
                }
                self.pos += 1;
                Value::Dict(items)
            }
            b'0'..=b'9' => Value::Bytes(self.bytes()?),
            _ => return Err(ParseError("bad type byte", self.pos)),
        };
        self.depth -= 1;
        Ok(r)
    }
    fn bytes(&mut self) -> Result<Vec<u8>, ParseError> {
        let start = self.pos;
        while self.peek()?.is_ascii_digit() {
            self.pos += 1;
        }
        if self.peek()? != b':' || self.pos == start {
            return Err(ParseError("string length", self.pos));
        }
        let s = std::str::from_utf8(&self.input[start..self.pos]).unwrap_or("x");
        let n: usize = s.parse().map_err(|_| ParseError("string length", start))?;
        if n.to_string() != s {
            self.canonical = false;
        }
        self.pos += 1;
        if self.pos + n > self.input.len() {
            return Err(ParseError("string overruns", self.pos));
        }
        let b = self.input[self.pos..self.pos + n].to_vec();
        self.pos += n;
        Ok(b)
    }
}
