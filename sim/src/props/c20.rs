//! C20 — bounded state: no leaks at quiescence, caps respected, statistics consistent.

use std::cell::RefCell;
use std::net::SocketAddrV4;
use std::rc::Rc;

use dht::verif::{Snapshot, TableSnap};
use dht::ServerSettings;
use serde_json::json;

use crate::krpc::{self, Item, MsgOpts};
use crate::props::common::*;
use crate::props::{PropInfo, Property, Report, RunCtx, Tier};
use crate::rawnet::*;
use crate::rng::Rng;
use crate::sim::*;

#[derive(Default)]
pub struct StateChecker {
    pub violation: Option<(String, String)>,
    pub max_cached: usize,
    pub max_retained_inflight: usize,
    pub stats_checks: u64,
    pub cache_full_seen: u64,
    pub find_node_cached: u64,
}

fn close(a: f64, b: f64) -> bool {
    (a - b).abs() <= 1e-6 * a.abs().max(b.abs()).max(1.0)
}

impl StateChecker {
    fn fail(&mut self, key: &str, detail: String) {
        if self.violation.is_none() {
            self.violation = Some((key.to_string(), detail));
        }
    }

    fn check_table(&mut self, name: &str, t: &TableSnap, entries: &[(u8, f64, f64, u8)]) {
        // entries: (kind, dht_size_estimate, responders_dht_size_estimate, subnets) of the cached lookups of this table
        let n_all = entries.len();
        let s_all: f64 = entries.iter().map(|e| e.1).sum();
        if t.dht_size_estimates_count > (1usize << 40) || t.responders_samples_count > (1usize << 40) || t.responders_subnets_sum > (1usize << 40) {
            self.fail("stats-underflow", format!("{name}: a statistics counter wrapped below zero (counts {} / {}, subnets sum {})", t.dht_size_estimates_count, t.responders_samples_count, t.responders_subnets_sum));
            return;
        }
        if t.dht_size_estimates_count != n_all || !close(t.dht_size_estimates_sum, s_all) {
            self.fail(
                "dht-size-stats-diverged",
                format!("{name}: dht size estimate count/sum = {}/{:.3} but the {n_all} cached lookups add up to {:.3}", t.dht_size_estimates_count, t.dht_size_estimates_sum, s_all),
            );
            return;
        }
        // responder statistics: over all cached lookups, or over all but find_node ones
        let non_find: Vec<&(u8, f64, f64, u8)> = entries.iter().filter(|e| e.0 != 0).collect();
        let variants = [
            (n_all, entries.iter().map(|e| e.2).sum::<f64>(), entries.iter().map(|e| e.3 as usize).sum::<usize>()),
            (non_find.len(), non_find.iter().map(|e| e.2).sum::<f64>(), non_find.iter().map(|e| e.3 as usize).sum::<usize>()),
        ];
        let ok = variants.iter().any(|(n, s, sub)| t.responders_samples_count == *n && close(t.responders_size_estimates_sum, *s) && t.responders_subnets_sum == *sub);
        if !ok {
            self.fail(
                "responder-stats-diverged",
                format!(
                    "{name}: responder samples/size sum/subnets sum = {}/{:.3}/{} but the cached lookups give {}/{:.3}/{} (all) or {}/{:.3}/{} (without find_node lookups)",
                    t.responders_samples_count, t.responders_size_estimates_sum, t.responders_subnets_sum, variants[0].0, variants[0].1, variants[0].2, variants[1].0, variants[1].1, variants[1].2
                ),
            );
        }
        self.stats_checks += 1;
    }

    pub fn check(&mut self, s: &Snapshot) {
        let cached = &s.cached_iterative_queries;
        self.max_cached = self.max_cached.max(cached.len());
        if cached.len() > 1000 {
            self.fail("cache-over-capacity", format!("{} cached lookups (capacity 1000)", cached.len()));
        }
        if cached.len() == 1000 {
            self.cache_full_seen += 1;
        }
        self.find_node_cached = self.find_node_cached.max(cached.iter().filter(|c| c.kind == 0).count() as u64);
        let main: Vec<(u8, f64, f64, u8)> = cached.iter().filter(|c| c.kind != 2).map(|c| (c.kind, c.dht_size_estimate, c.responders_dht_size_estimate, c.subnets)).collect();
        let signed: Vec<(u8, f64, f64, u8)> = cached.iter().filter(|c| c.kind == 2).map(|c| (c.kind, c.dht_size_estimate, c.responders_dht_size_estimate, c.subnets)).collect();
        self.check_table("routing table", &s.routing_table, &main);
        self.check_table("signed-peers routing table", &s.signed_peers_routing_table, &signed);
        // Info agrees with the table
        let t = &s.routing_table;
        let want = (t.dht_size_estimates_sum as usize) / t.dht_size_estimates_count.max(1);
        if s.info_dht_size_estimate.0 != want && t.dht_size_estimates_count < (1 << 40) {
            self.fail("info-size-estimate-disagrees", format!("Info::dht_size_estimate = {} but the table's aggregate gives {want}", s.info_dht_size_estimate.0));
        }
        if s.info_routing_table_size != t.size {
            self.fail("info-table-size-disagrees", format!("Info::routing_table_size = {} but the table holds {}", s.info_routing_table_size, t.size));
        }
        // stores within their capacities
        let st = &s.store;
        let caps = [
            ("immutable values", st.immutable.len(), st.immutable_cap),
            ("mutable values", st.mutable.len(), st.mutable_cap),
            ("info hashes (peers)", st.peers.len(), st.peers_info_hashes_cap),
            ("info hashes (signed peers)", st.signed_peers.len(), st.signed_peers_info_hashes_cap),
        ];
        for (what, n, cap) in caps {
            if n > cap {
                self.fail("store-over-capacity", format!("{n} {what} stored, capacity {cap}"));
            }
        }
        for (_, l) in &st.peers {
            if l.len() > st.max_peers {
                self.fail("store-over-capacity", format!("{} peers under one info hash, capacity {}", l.len(), st.max_peers));
            }
        }
        for (_, l) in &st.signed_peers {
            if l.len() > st.max_signed_peers {
                self.fail("store-over-capacity", format!("{} signed peers under one info hash, capacity {}", l.len(), st.max_signed_peers));
            }
        }
        self.max_retained_inflight = self.max_retained_inflight.max(s.socket.inflight.len());
    }
}

/// No per-call state may remain. Returns a description of what is left.
fn leftovers(s: &Snapshot) -> Option<(String, String)> {
    let foreign_queries: Vec<String> = s.iterative_queries.iter().filter(|q| q.target != s.id).map(|q| hex8(&q.target)).collect();
    if !foreign_queries.is_empty() {
        return Some(("pending-lookups-at-quiescence".into(), format!("lookups still registered for targets {foreign_queries:?}")));
    }
    if !s.put_queries.is_empty() {
        return Some(("pending-puts-at-quiescence".into(), format!("{} put queries still registered (targets {:?})", s.put_queries.len(), s.put_queries.iter().map(|q| hex8(&q.target)).collect::<Vec<_>>())));
    }
    if !s.put_senders.is_empty() {
        return Some(("waiting-put-callers-at-quiescence".into(), format!("callers still parked for puts to {:?}", s.put_senders.iter().map(|x| hex8(&x.0)).collect::<Vec<_>>())));
    }
    let gs: Vec<String> = s.get_senders.iter().filter(|x| x.0 != s.id).map(|x| hex8(&x.0)).collect();
    if !gs.is_empty() {
        return Some(("waiting-get-callers-at-quiescence".into(), format!("callers still parked for lookups of {gs:?}")));
    }
    let live = s.socket.inflight.iter().filter(|r| r.2 < s.socket.request_timeout_ns).count();
    if live > 0 && s.since_table_ping_ns > s.socket.request_timeout_ns + SEC && s.iterative_queries.is_empty() {
        return Some(("unexpired-inflight-requests-at-quiescence".into(), format!("{live} in-flight requests have not expired although no query is active")));
    }
    None
}

fn run(ctx: &RunCtx) -> Report {
    let mut report = Report::default();
    let mut rng = Rng::new(ctx.seed);
    let scenario = match rng.below(match ctx.tier {
        Tier::Quick => 40,
        Tier::Thorough => 20,
    }) {
        0 => 1,          // cache roll
        1..=3 => 2,      // hours of refreshes and repeated targets
        4..=13 => 3,     // store flood / store reference model
        _ => 0,          // workload then quiescence
    };
    if scenario == 3 && rng.chance(2, 3) {
        // stores under request histories with reads: the reference model of C03/C04 checks caps and
        // least-recently-used eviction after every consumed datagram
        let flavor = if rng.chance(3, 4) { crate::props::server_model::Flavor::C04 } else { crate::props::server_model::Flavor::C03 };
        let mut r = crate::props::server_model::run(ctx, flavor);
        r.probe("store_model_runs", 1);
        return r;
    }
    let faulty = scenario == 0 && rng.chance(2, 3);
    let net = NetCfg {
        latency_min_us: 500,
        latency_max_us: rng.range(2_000, 60_000),
        drop_ppm: if faulty { rng.range(0, 250_000) as u32 } else { 0 },
        dup_ppm: if faulty && rng.chance(1, 2) { rng.range(0, 200_000) as u32 } else { 0 },
        slow_ppm: if faulty && rng.chance(1, 2) { rng.range(0, 150_000) as u32 } else { 0 },
        slow_extra_ms: (400, 3000),
        ..NetCfg::default()
    };
    let sim = Sim::new(ctx.seed, net.clone());
    if scenario == 1 || scenario == 2 {
        // thousands of datagrams with a large cache: snapshot on demand (after every lookup)
        sim.set_snap_mode(SnapMode::OnDemand);
    } else {
        sim.set_snap_mode(SnapMode::OnConsume);
        sim.set_snap_every(8);
    }
    let checker: Rc<RefCell<StateChecker>> = Default::default();
    let rawnet = RawNet::new();
    let n_raw = if scenario == 1 { 40 } else { rng.usize(3, 25) };
    // 1 run in 3 on public addresses: the node learns its address from its peers' votes, confirms it
    // with a self-ping and re-keys both routing tables to a BEP42 id while lookups are cached
    let public = scenario != 3 && rng.chance(1, 3);
    if public {
        report.probe("public_plan_runs", 1);
    }
    let key = krpc::signing_key(rng.bytes(32).try_into().unwrap());
    let item = Item::signed(&key, None, 1, b"x");
    let mut addrs = vec![];
    for i in 0..n_raw {
        let addr = SocketAddrV4::new(if public { pub_ip(&mut rng) } else { priv_ip(90 + i) }, 6881);
        let mut p = Peer::new(rng.id(), addr);
        p.k = 8;
        p.delay = rng.range(0, 100) * MS;
        if rng.chance(1, 3) {
            p.mutable.insert(item.target(), item.clone());
        }
        p.put_reply = if rng.chance(1, 6) { PutReply::Silent } else { PutReply::Ack };
        rawnet.add(&sim, p);
        addrs.push(addr);
    }
    for i in 0..n_raw {
        let mut knows: Vec<usize> = (0..n_raw).collect();
        rng.shuffle(&mut knows);
        knows.truncate(rng.usize(2, n_raw));
        rawnet.with_peer(i, |p| p.knows = knows);
    }
    let mut spec = NodeSpec::new(if public { pub_ip(&mut rng) } else { priv_ip(1) }, 6881);
    spec.server_mode = scenario == 3 || rng.chance(1, 2);
    spec.bootstrap = addrs.iter().take(3).map(|a| a.to_string()).collect();
    let mut settings = ServerSettings::default();
    // store floods, 1 in 3 (own random stream): *mid-size capacities* (5..100, not powers of two) or, rarely, the
    // default per-info-hash capacity, with the flood concentrated on one or two info hashes so that the
    // per-info-hash bound is what gets exercised (distinct announcers: one IP, many ports / many keys)
    let mut mrng = Rng::new(crate::rng::key(ctx.seed, &[crate::rng::tag("c20-mid-caps")]));
    let mid_caps = scenario == 3 && mrng.chance(1, 3);
    let default_peer_cap = mid_caps && mrng.chance(1, 6);
    if scenario == 3 {
        settings.max_info_hashes = rng.usize(1, 3);
        settings.max_peers_per_info_hash = rng.usize(1, 3);
        settings.max_immutable_values = rng.usize(1, 3);
        settings.max_mutable_values = rng.usize(1, 3);
        if mid_caps {
            let pick = |r: &mut Rng| *r.pick(&[5usize, 9, 10, 12, 17, 33, 100]);
            settings.max_info_hashes = pick(&mut mrng);
            settings.max_peers_per_info_hash = if default_peer_cap { dht::MAX_PEERS } else { pick(&mut mrng) };
            settings.max_immutable_values = pick(&mut mrng);
            settings.max_mutable_values = pick(&mut mrng);
        }
        spec.settings = Some(settings.clone());
    }
    let node_cell: Rc<RefCell<Option<HostId>>> = Default::default();
    {
        let c = checker.clone();
        let nc = node_cell.clone();
        sim.set_observer(Box::new(move |h, _now, s| {
            if Some(h) == *nc.borrow() {
                c.borrow_mut().check(s);
            }
        }));
    }
    let node = sim.add_node(spec);
    *node_cell.borrow_mut() = Some(node);
    let node_addr = sim.node_addr(node);
    sim.run_for(3 * SEC);
    let mut plan = format!("scenario={scenario} raw={n_raw} net(drop={},dup={},slow={})", net.drop_ppm, net.dup_ppm, net.slow_ppm);
    report.elements = 0;
    match scenario {
        0 => {
            // mixed workload, then quiet
            let n_calls = rng.usize(1, 25);
            let targets: Vec<[u8; 20]> = (0..4).map(|_| rng.id()).collect();
            let mut ops = vec![];
            // 1 run in 3: two put_mutable calls for the key back to back, the second with a cas at the first's
            // seq and a seq around it (the supersede / reject paths of the local conflict rules)
            if rng.chance(1, 3) {
                let s1 = rng.range(8, 14) as i64;
                ops.push(sim.put_mutable(node, dht::MutableItem::new(&key, b"first", s1, None), None));
                sim.run_for(rng.range(0, 400) * MS);
                let s2 = s1 + rng.range(0, 2) as i64 - 1;
                ops.push(sim.put_mutable(node, dht::MutableItem::new(&key, b"second", s2, None), Some(s1)));
                report.probe("put_mutable_pairs_with_cas_at_the_in_flight_seq", 1);
            }
            // 1 run in 3 (own random stream): before one of the calls the node's peers start reporting another
            // address for it (a new NAT binding), and a find_node(t) is followed at once by an announce for t -
            // the put rides on a lookup that yields no token and, as it finishes, carries the new address votes.
            // Whatever the put's outcome, nothing of it may remain.
            let mut vrng = Rng::new(crate::rng::key(ctx.seed, &[crate::rng::tag("c20-vote-change")]));
            let vote_change_at: Option<usize> = if vrng.chance(1, 3) { Some(vrng.usize(0, n_calls - 1)) } else { None };
            for i in 0..n_calls {
                if vote_change_at == Some(i) {
                    let other = SocketAddrV4::new(priv_ip(9900 + vrng.usize(0, 50)), 6881);
                    for j in 0..rawnet.len() {
                        rawnet.with_peer(j, |p| p.ip_vote = Some(other));
                    }
                    let t = vrng.id();
                    ops.push(sim.find_node(node, t));
                    sim.run_for(vrng.range(0, 30) * MS);
                    ops.push(sim.announce_peer(node, t, Some(10)));
                    report.probe("address_vote_change_with_put_riding_on_find_node", 1);
                }
                let t = targets[rng.usize(0, 3)];
                let op = match rng.below(9) {
                    0 => sim.get_immutable(node, t),
                    1 => sim.get_mutable(node, key.verifying_key().to_bytes(), None, None),
                    2 => sim.get_peers(node, t),
                    3 => sim.get_signed_peers(node, t),
                    4 => sim.find_node(node, t),
                    5 => sim.put_immutable(node, vec![i as u8; 10]),
                    // seqs collide and go back, values differ, cas values hit and miss the in-flight seq: whatever
                    // the local conflict rules answer, no caller may stay parked
                    6 => {
                        let seq = if rng.chance(1, 2) { 10 + i as i64 } else { rng.range(8, 14) as i64 };
                        let cas = if rng.chance(1, 2) { None } else { Some(rng.range(8, 14) as i64) };
                        let v: &[u8] = if rng.chance(1, 2) { b"v" } else { b"w" };
                        sim.put_mutable(node, dht::MutableItem::new(&key, v, seq, None), cas)
                    }
                    7 => sim.announce_peer(node, t, Some(9)),
                    _ => sim.get_closest_nodes(node, t),
                };
                ops.push(op);
                // some callers give up early: the dropped receiver must not leave state behind
                if rng.chance(1, 8) {
                    sim.run_for(rng.range(0, 300) * MS);
                    sim.cancel_op(op);
                    report.probe("cancelled_calls", 1);
                }
                sim.run_for(if rng.chance(1, 3) { 0 } else { rng.range(0, 1500) * MS });
            }
            // incoming traffic as well
            for i in 0..rng.usize(0, 20) {
                let src = SocketAddrV4::new(priv_ip(6000 + i), 6000);
                sim.raw_send(src, node_addr, krpc::query(&krpc::tid_bytes(i as u32), "find_node", krpc::find_node_args(&rng.id(), &rng.id()), &MsgOpts::default()));
            }
            sim.run_ops(&ops, sim.now() + 200 * SEC);
            // quiet period, longer than the largest timeout, away from a ping round
            sim.run_for(20 * SEC);
            let mut tries = 0;
            loop {
                sim.want_snapshot(node);
                sim.run_for(SEC);
                let Some(s) = sim.snapshot(node) else { break };
                let near_round = s.since_table_ping_ns < 8 * SEC || s.since_table_refresh_ns < 8 * SEC || !s.iterative_queries.iter().all(|q| q.target != s.id);
                tries += 1;
                if near_round && tries < 5 {
                    sim.run_for(10 * SEC);
                    continue;
                }
                if let Some((key, detail)) = leftovers(&s) {
                    report.violate("leak", &key, format!("{detail}; after {n_calls} calls and a quiet period"));
                }
                report.probe("retained_inflight_entries_at_quiescence", s.socket.inflight.len() as u64);
                break;
            }
            report.probe("quiescence_checks", 1);
            plan.push_str(&format!(" calls={n_calls}"));
        }
        1 => {
            // more than 1000 distinct lookup targets roll the lookup cache
            let n = rng.usize(1010, 1150);
            for i in 0..n {
                let t = rng.id();
                let op = match i % 5 {
                    0 => sim.find_node(node, t),
                    1 => sim.get_peers(node, t),
                    2 => sim.get_signed_peers(node, t),
                    _ => sim.get_immutable(node, t),
                };
                sim.run_ops(&[op], sim.now() + 30 * SEC);
                if i % 3 == 0 || i > 990 {
                    sim.want_snapshot(node);
                    sim.run_for(600 * MS);
                }
                if i % 97 == 0 {
                    // repeat an earlier target (replaces its cache entry)
                    let op = sim.get_immutable(node, t);
                    sim.run_ops(&[op], sim.now() + 30 * SEC);
                }
            }
            // half of these runs go *offline* with the cache full: every peer falls silent, the table empties
            // within 20-25 minutes, and lookups that reach nobody (the node's own re-bootstrap attempts and a
            // few API lookups) roll the full cache; the statistics must keep mirroring the cached lookups
            if rng.chance(1, 2) {
                for j in 0..rawnet.len() {
                    rawnet.with_peer(j, |p| p.silent = true);
                }
                let end = sim.now() + rng.range(22, 30) * 60 * SEC;
                let mut k = 0u64;
                while sim.now() < end {
                    sim.run_for(rng.range(20, 90) * SEC);
                    let t = rng.id();
                    let op = if k % 2 == 0 { sim.get_peers(node, t) } else { sim.find_node(node, t) };
                    sim.run_ops(&[op], sim.now() + 60 * SEC);
                    sim.want_snapshot(node);
                    sim.run_for(600 * MS);
                    k += 1;
                }
                report.probe("offline_with_full_cache_runs", 1);
                if sim.snapshot(node).map(|s| s.routing_table.size == 0).unwrap_or(false) {
                    report.probe("offline_runs_ending_with_an_empty_table", 1);
                }
            }
            report.probe("cache_roll_runs", 1);
            plan.push_str(&format!(" lookups={n}"));
        }
        2 => {
            // hours of uptime: the self lookup every 15 minutes, plus repeated lookups of few targets
            let hours = rng.range(1, 4);
            let targets: Vec<[u8; 20]> = (0..3).map(|_| rng.id()).collect();
            let end = sim.now() + hours * 3600 * SEC;
            while sim.now() < end {
                let pause = rng.range(10, 900);
                for _ in 0..(pause / 120 + 1) {
                    sim.run_for((pause.min(120)) * SEC);
                    sim.want_snapshot(node);
                }
                let t = targets[rng.usize(0, 2)];
                let op = match rng.below(4) {
                    0 => sim.find_node(node, t),
                    1 => sim.get_peers(node, t),
                    2 => sim.get_signed_peers(node, t),
                    _ => sim.get_immutable(node, t),
                };
                sim.run_ops(&[op], sim.now() + 60 * SEC);
                sim.want_snapshot(node);
                sim.run_for(600 * MS);
            }
            report.probe("long_runs", 1);
            plan.push_str(&format!(" hours={hours}"));
        }
        _ => {
            // flood of valid writes from raw writers against capacities 1..3
            let writers: Vec<SocketAddrV4> = (0..3).map(|i| SocketAddrV4::new(priv_ip(7000 + i), 7000)).collect();
            let logs: Vec<_> = writers.iter().map(|w| logging_raw(&sim, *w).1).collect();
            let mut tokens: Vec<Option<Vec<u8>>> = vec![None; 3];
            let n = rng.usize(10, 80);
            let n = if mid_caps { (2 * settings.max_peers_per_info_hash + mrng.usize(3, 40)).min(1100) } else { n };
            let pool: Vec<[u8; 20]> = (0..mrng.usize(1, 2)).map(|_| mrng.id()).collect();
            if mid_caps {
                report.probe("store_floods_with_mid_size_capacities", 1);
                if default_peer_cap {
                    report.probe("store_floods_against_the_default_peer_capacity", 1);
                }
            }
            for i in 0..n {
                let w = rng.usize(0, 2);
                if tokens[w].is_none() {
                    sim.raw_send(writers[w], node_addr, krpc::query(&krpc::tid_bytes(9000 + i as u32), "get_peers", krpc::get_peers_args(&[5; 20], &rng.id()), &MsgOpts::default()));
                    sim.run_for(300 * MS);
                    tokens[w] = logs[w].borrow().iter().rev().find_map(|(_, _, b)| crate::krpc::Krpc::parse(b).and_then(|k| k.token().map(|t| t.to_vec())));
                }
                let Some(tok) = tokens[w].clone() else { continue };
                let id = rng.id();
                // concentrated floods: announces for the pooled info hashes from ever new ports / keys
                let kind = if mid_caps { *mrng.pick(&[2u64, 2, 2, 3, 3, 0, 1]) } else { rng.below(4) };
                if mid_caps && kind >= 2 {
                    let ih = pool[mrng.usize(0, pool.len() - 1)];
                    let bytes = if kind == 2 {
                        krpc::query(&krpc::tid_bytes(i as u32), "announce_peer", krpc::announce_peer_args(&id, &ih, 2000 + i as u16, None, &tok), &MsgOpts::default())
                    } else {
                        let k = krpc::signing_key(mrng.bytes(32).try_into().unwrap());
                        let t = sim.host_wall_us(node);
                        let sig = krpc::sign(&k, &krpc::signed_announce_signable(&ih, t));
                        krpc::query(&krpc::tid_bytes(i as u32), "announce_signed_peer", krpc::announce_signed_peer_args(&id, &ih, &k.verifying_key().to_bytes(), &sig, t as i64, &tok), &MsgOpts::default())
                    };
                    sim.raw_send(writers[w], node_addr, bytes);
                    sim.run_for(mrng.range(1, 30) * MS);
                    continue;
                }
                let bytes = match kind {
                    0 => {
                        let v = rng.bytes(12);
                        krpc::query(&krpc::tid_bytes(i as u32), "put", krpc::put_immutable_args(&id, &krpc::immutable_target(&v), &v, &tok), &MsgOpts::default())
                    }
                    1 => {
                        let k = krpc::signing_key(rng.bytes(32).try_into().unwrap());
                        let it = Item::signed(&k, None, 1, b"flood");
                        krpc::query(&krpc::tid_bytes(i as u32), "put", krpc::put_mutable_args(&id, &it.target(), &it.v, &it.k, &it.sig, 1, None, None, &tok), &MsgOpts::default())
                    }
                    2 => krpc::query(&krpc::tid_bytes(i as u32), "announce_peer", krpc::announce_peer_args(&id, &rng.id(), 1, None, &tok), &MsgOpts::default()),
                    _ => {
                        let k = krpc::signing_key(rng.bytes(32).try_into().unwrap());
                        let ih = rng.id();
                        let t = sim.host_wall_us(node);
                        let sig = krpc::sign(&k, &krpc::signed_announce_signable(&ih, t));
                        krpc::query(&krpc::tid_bytes(i as u32), "announce_signed_peer", krpc::announce_signed_peer_args(&id, &ih, &k.verifying_key().to_bytes(), &sig, t as i64, &tok), &MsgOpts::default())
                    }
                };
                sim.raw_send(writers[w], node_addr, bytes);
                sim.run_for(rng.range(1, 200) * MS);
            }
            sim.run_for(2 * SEC);
            if let Some(s) = sim.snapshot(node) {
                let st = &s.store;
                report.probe("flood_stored_entries", (st.immutable.len() + st.mutable.len() + st.peers.len() + st.signed_peers.len()) as u64);
            }
            report.probe("store_flood_runs", 1);
            plan.push_str(&format!(" writes={n} caps=({},{},{},{})", settings.max_info_hashes, settings.max_peers_per_info_hash, settings.max_immutable_values, settings.max_mutable_values));
        }
    }
    if let Some(d) = sim.died(node) {
        report.violate("node-died", "node-actor-panicked", format!("node died: {d}"));
    }
    let c = checker.borrow();
    if let Some((key, detail)) = &c.violation {
        report.violate("bounded-state", key, format!("{detail}; {plan}"));
    }
    report.probe("stats_checks", c.stats_checks);
    report.probe("max_cached_lookups", c.max_cached as u64);
    if c.cache_full_seen > 0 {
        report.probe("cache_reached_1000", 1);
    }
    report.probe("max_retained_inflight_entries", c.max_retained_inflight as u64);
    report.nontrivial = c.stats_checks > 0 && c.max_cached > 0;
    drop(c);
    report.sample = Some(json!({"scenario": plan}));
    report.plan_dump = Some(plan);
    finish(&sim, report)
}

pub fn property() -> Property {
    Property {
        id: "C20",
        run,
        budget: |t| match t {
            Tier::Quick => 3000,
            Tier::Thorough => 100_000,
        },
        wall_cap_s: |t| match t {
            Tier::Quick => 75.0,
            Tier::Thorough => 1500.0,
        },
        info: || PropInfo {
            floors: vec![],
            rule: "four scenarios, one per run: (0, ~3/4 of runs) 1..25 overlapping API calls of 9 kinds over 4 targets (1/8 cancelled by dropping the future) plus incoming requests under loss/duplication/late replies, then a quiet period; at quiescence no lookups, puts, parked callers or unexpired in-flight requests may remain; (1, 1 in 40 / 20) 1010..1150 lookups of distinct targets roll the 1000-entry lookup cache; (2) 1..4 virtual hours with the periodic self lookup and repeated lookups of 3 targets; (3) a server with capacities 1..3 flooded with 10..80 valid writes of all four kinds. On every snapshot: cache <= 1000, stores within capacity, the routing tables' size/subnet counters equal the aggregate recomputed from the cached lookups of the same snapshot (relative 1e-6; responder counters either over all cached lookups or over all but find_node ones) and never wrap, Info agrees. Non-trivial = statistics were compared with a non-empty cache; distinct = delivery-order hash".into(),
            assumptions: vec!["retained (expired) in-flight entries are reported, not bounded".into()],
        },
    }
}
