//! Batch runner: fans seeds out to worker threads of a child process (abort containment),
//! merges statistics, checks determinism, minimises the first violation, writes the replay
//! file and the evidence file.

use std::collections::{BTreeMap, BTreeSet};
use std::io::{BufRead, BufReader, Write};
use std::panic::{catch_unwind, AssertUnwindSafe};
use std::process::{Command, Stdio};
use std::sync::atomic::{AtomicUsize, Ordering};
use std::sync::{Arc, Mutex};
use std::time::Instant;

use serde_json::{json, Value};

use crate::props::{self, Report, RunCtx, Tier};
use crate::rng;

pub fn run_seed(base: u64, prop: &str, i: u64) -> u64 {
    rng::key(base, &[rng::tag(prop), i])
}

/// Run one scenario, converting harness panics into a harness-error report.
pub fn run_one(prop: &str, ctx: &RunCtx) -> Report {
    crate::sim::install_panic_hook();
    let p = props::get(prop).expect("unknown property");
    match catch_unwind(AssertUnwindSafe(|| (p.run)(ctx))) {
        Ok(r) => r,
        Err(e) => {
            // make sure no Env is left installed on this thread
            dht::verif::install(None);
            let msg = if let Some(s) = e.downcast_ref::<&str>() {
                s.to_string()
            } else if let Some(s) = e.downcast_ref::<String>() {
                s.clone()
            } else {
                "panic".into()
            };
            let mut r = Report::default();
            r.harness_error = Some(format!("harness panic: {msg}"));
            r
        }
    }
}

fn report_to_json(i: u64, seed: u64, r: &Report) -> Value {
    json!({
        "i": i, "seed": seed,
        "violation": r.violation.as_ref().map(|v| json!({"class": v.class, "detail": v.detail, "key": v.key})),
        "harness_error": r.harness_error,
        "nontrivial": r.nontrivial, "vacuous": r.vacuous,
        "fingerprint": r.fingerprint, "det_hash": r.det_hash,
        "sim_time_ns": r.sim_time_ns,
        "faults": r.faults, "probes": r.probes,
        "sample": r.sample, "elements": r.elements, "steps": r.steps,
    })
}

/// Child process: run `count` scenarios starting at index `start` on `threads` threads and
/// print one JSON line per start and per result.
pub fn worker(prop: &str, tier: Tier, base: u64, start: u64, count: u64, threads: usize) {
    let next = Arc::new(AtomicUsize::new(0));
    let out = Arc::new(Mutex::new(std::io::stdout()));
    let deadline = std::env::var("MLSIM_DEADLINE_S")
        .ok()
        .and_then(|s| s.parse::<f64>().ok());
    let t0 = Instant::now();
    // Watchdog: a simulation takes milliseconds to seconds of real time. A run that makes no progress for
    // MLSIM_STUCK_S seconds (default 120; 600 for C14, whose longest runs take 45 s) means an actor blocked in a *real* blocking call (for example a
    // send on a full bounded channel) - the scheduler thread itself is then parked for good. The worker
    // reports the run and exits with code 86; the parent re-runs the unfinished runs one by one.
    let stuck_s: f64 = std::env::var("MLSIM_STUCK_S").ok().and_then(|s| s.parse().ok()).unwrap_or(if prop == "C14" { 600.0 } else { 120.0 });
    let slots: Arc<Mutex<Vec<Option<(u64, Instant)>>>> = Arc::new(Mutex::new(vec![None; threads]));
    {
        let slots = slots.clone();
        let out = out.clone();
        std::thread::spawn(move || loop {
            std::thread::sleep(std::time::Duration::from_millis(500));
            let stuck: Option<u64> = slots.lock().unwrap().iter().flatten().find(|(_, t)| t.elapsed().as_secs_f64() > stuck_s).map(|(i, _)| *i);
            if let Some(i) = stuck {
                if let Ok(mut o) = out.lock() {
                    let _ = writeln!(o, "{}", json!({"stuck": i}));
                    let _ = o.flush();
                }
                std::process::exit(86);
            }
        });
    }
    let mut handles = vec![];
    for tnum in 0..threads {
        let next = next.clone();
        let out = out.clone();
        let prop = prop.to_string();
        let slots = slots.clone();
        handles.push(
            std::thread::Builder::new()
                .stack_size(16 * 1024 * 1024)
                .spawn(move || loop {
                    let k = next.fetch_add(1, Ordering::SeqCst) as u64;
                    if k >= count {
                        break;
                    }
                    if let Some(d) = deadline {
                        if t0.elapsed().as_secs_f64() > d {
                            break;
                        }
                    }
                    let i = start + k;
                    let seed = run_seed(base, &prop, i);
                    {
                        let mut o = out.lock().unwrap();
                        let _ = writeln!(o, "{}", json!({"start": i}));
                        let _ = o.flush();
                    }
                    let ctx = RunCtx::at(base, i, seed, tier);
                    let t_run = Instant::now();
                    slots.lock().unwrap()[tnum] = Some((i, t_run));
                    let r = run_one(&prop, &ctx);
                    slots.lock().unwrap()[tnum] = None;
                    let mut line = report_to_json(i, seed, &r);
                    line["wall_ms"] = json!(t_run.elapsed().as_millis() as u64);
                    let mut o = out.lock().unwrap();
                    let _ = writeln!(o, "{}", line);
                    let _ = o.flush();
                })
                .unwrap(),
        );
    }
    for h in handles {
        let _ = h.join();
    }
}

#[derive(Default)]
struct Agg {
    evaluations: u64,
    nontrivial: u64,
    vacuous: u64,
    fingerprints: BTreeSet<u64>,
    sim_time_ns: u128,
    steps: u128,
    faults: BTreeMap<String, u64>,
    probes: BTreeMap<String, u64>,
    samples: Vec<Value>,
    violations: Vec<Value>,
    harness_errors: Vec<Value>,
    det: BTreeMap<u64, u64>,
    started: BTreeSet<u64>,
    done: BTreeSet<u64>,
    max_run_wall_ms: u64,
}

impl Agg {
    fn absorb(&mut self, v: &Value) {
        if let Some(i) = v.get("start").and_then(|x| x.as_u64()) {
            self.started.insert(i);
            return;
        }
        let Some(i) = v.get("i").and_then(|x| x.as_u64()) else {
            return;
        };
        self.done.insert(i);
        self.evaluations += 1;
        self.max_run_wall_ms = self.max_run_wall_ms.max(v["wall_ms"].as_u64().unwrap_or(0));
        if v["nontrivial"].as_bool().unwrap_or(false) {
            self.nontrivial += 1;
            if let Some(f) = v["fingerprint"].as_u64() {
                self.fingerprints.insert(f);
            }
        }
        if v["vacuous"].as_bool().unwrap_or(false) {
            self.vacuous += 1;
        }
        self.sim_time_ns += v["sim_time_ns"].as_u64().unwrap_or(0) as u128;
        self.steps += v["steps"].as_u64().unwrap_or(0) as u128;
        for (name, map) in [("faults", &mut self.faults), ("probes", &mut self.probes)] {
            if let Some(o) = v[name].as_object() {
                for (k, x) in o {
                    *map.entry(k.clone()).or_insert(0) += x.as_u64().unwrap_or(0);
                }
            }
        }
        if self.samples.len() < 3 && !v["sample"].is_null() {
            self.samples.push(v["sample"].clone());
        }
        if !v["violation"].is_null() {
            self.violations.push(v.clone());
        }
        if !v["harness_error"].is_null() {
            self.harness_errors.push(v.clone());
        }
        if let Some(h) = v["det_hash"].as_u64() {
            self.det.insert(i, h);
        }
    }
}

fn spawn_worker(
    prop: &str,
    tier: Tier,
    base: u64,
    start: u64,
    count: u64,
    threads: usize,
    deadline_s: Option<f64>,
    agg: &mut Agg,
) -> Option<i32> {
    // a harness problem (binary replaced under a running check, fork failure) is exit 2, never an alarm
    let exe = match std::env::current_exe() {
        Ok(e) => e,
        Err(e) => {
            eprintln!("harness error: current_exe: {e}");
            std::process::exit(2);
        }
    };
    let mut cmd = Command::new(exe);
    cmd.arg("worker")
        .arg(prop)
        .arg(tier.name())
        .arg(base.to_string())
        .arg(start.to_string())
        .arg(count.to_string())
        .arg(threads.to_string())
        .stdout(Stdio::piped())
        .stderr(Stdio::inherit());
    if let Some(d) = deadline_s {
        cmd.env("MLSIM_DEADLINE_S", format!("{d}"));
    }
    let mut child = match cmd.spawn() {
        Ok(c) => c,
        Err(e) => {
            eprintln!("harness error: cannot spawn the worker process: {e}");
            std::process::exit(2);
        }
    };
    let stdout = child.stdout.take().unwrap();
    for line in BufReader::new(stdout).lines() {
        let Ok(line) = line else { break };
        if let Ok(v) = serde_json::from_str::<Value>(&line) {
            agg.absorb(&v);
        }
    }
    let status = child.wait().expect("wait");
    status.code()
}

pub struct KnownFindings {
    entries: Vec<Value>,
}

impl KnownFindings {
    pub fn load() -> Self {
        let path = verif_dir().join("known_findings.json");
        let entries = std::fs::read_to_string(&path)
            .ok()
            .and_then(|s| serde_json::from_str::<Value>(&s).ok())
            .and_then(|v| v.get("findings").and_then(|f| f.as_array().cloned()))
            .unwrap_or_default();
        KnownFindings { entries }
    }
    /// An open (not fixed) finding with this property and key
    pub fn open(&self, prop: &str, key: &str) -> Option<&Value> {
        self.entries.iter().find(|e| {
            e["property"].as_str() == Some(prop)
                && e["status"].as_str() == Some("open")
                && e["key"].as_str() == Some(key)
        })
    }
}

pub fn verif_dir() -> std::path::PathBuf {
    std::env::var("VERIF_DIR")
        .map(std::path::PathBuf::from)
        .unwrap_or_else(|_| std::path::PathBuf::from("/verif"))
}

/// ddmin-style minimisation over the scenario's maskable elements.
fn minimise(prop: &str, base: u64, index: u64, seed: u64, tier: Tier, class: &str, elements: usize, budget: usize) -> (Vec<usize>, Report) {
    let mut disabled: BTreeSet<usize> = BTreeSet::new();
    let mut best = {
        let ctx = RunCtx::at(base, index, seed, tier);
        run_one(prop, &ctx)
    };
    let mut runs = 0usize;
    let mut chunk = elements.div_ceil(2).max(1);
    let same = |r: &Report| r.violation.as_ref().map(|v| v.class.as_str()) == Some(class);
    while chunk >= 1 && runs < budget {
        let mut progress = false;
        let active: Vec<usize> = (0..elements).filter(|e| !disabled.contains(e)).collect();
        for group in active.chunks(chunk) {
            if runs >= budget {
                break;
            }
            let mut trial = disabled.clone();
            trial.extend(group.iter().copied());
            let mut ctx = RunCtx::at(base, index, seed, tier);
            ctx.disabled = trial.iter().copied().collect();
            let r = run_one(prop, &ctx);
            runs += 1;
            if same(&r) {
                disabled = trial;
                best = r;
                progress = true;
            }
        }
        if chunk == 1 {
            if !progress {
                break;
            }
        } else {
            chunk /= 2;
        }
    }
    (disabled.into_iter().collect(), best)
}

fn write_replay(prop: &str, base: u64, index: u64, seed: u64, tier: Tier, disabled: &[usize], r: &Report, tag: &str) -> std::path::PathBuf {
    let dir = verif_dir().join("replays");
    let _ = std::fs::create_dir_all(&dir);
    let path = dir.join(format!("{prop}-{seed:016x}{tag}.json"));
    let v = r.violation.as_ref();
    let doc = json!({
        "property": prop,
        "seed": seed,
        "verif_seed": base,
        "index": index,
        "tier": tier.name(),
        "disabled": disabled,
        "expect_class": v.map(|v| v.class.clone()),
        "expect_key": v.map(|v| v.key.clone()),
        "expect_det_hash": r.det_hash,
        "detail": v.map(|v| v.detail.clone()),
        "plan": r.plan_dump,
        "trace_tail": r.trace_tail,
        "faults_fired": r.faults,
        "replay_cmd": format!("/verif/bin/check replay {}", path.display()),
    });
    std::fs::write(&path, serde_json::to_string_pretty(&doc).unwrap()).expect("write replay");
    path
}

/// `mlsim replay <file>`: exit 1 (with VIOLATION line) if the recorded violation reproduces
/// with the same determinism hash, 0 if the run is clean, 2 if it differs.
pub fn replay(path: &str) -> i32 {
    let doc: Value = match std::fs::read_to_string(path).ok().and_then(|s| serde_json::from_str(&s).ok()) {
        Some(d) => d,
        None => {
            eprintln!("cannot read replay file {path}");
            return 2;
        }
    };
    let prop = doc["property"].as_str().unwrap_or("").to_string();
    let seed = doc["seed"].as_u64().unwrap_or(0);
    let tier = Tier::parse(doc["tier"].as_str().unwrap_or("quick"));
    let mut ctx = RunCtx::at(doc["verif_seed"].as_u64().unwrap_or(0), doc["index"].as_u64().unwrap_or(0), seed, tier);
    ctx.disabled = doc["disabled"]
        .as_array()
        .map(|a| a.iter().filter_map(|x| x.as_u64()).map(|x| x as usize).collect())
        .unwrap_or_default();
    ctx.verbose = true;
    if matches!(doc["expect_class"].as_str(), Some("process-abort") | Some("process-hang")) {
        // these runs take the process down (or block it): replay in a child process
        let mut one = Agg::default();
        let c = spawn_worker(&prop, tier, ctx.base, ctx.index, 1, 1, None, &mut one);
        println!("replay property={prop} seed={seed} in a child process: exit code {c:?}");
        let reproduced = match doc["expect_class"].as_str() {
            Some("process-hang") => c == Some(86),
            _ => c != Some(0) && c != Some(86),
        };
        if reproduced {
            println!("REPRODUCED exactly (the child process {})", if c == Some(86) { "stopped making progress" } else { "aborted" });
            println!("VIOLATION property={prop} replay={path}");
            return 1;
        }
        println!("no violation in this replay");
        return 0;
    }
    let r = run_one(&prop, &ctx);
    println!("replay property={prop} seed={seed} det_hash={} expected={}", r.det_hash, doc["expect_det_hash"]);
    if let Some(p) = &r.plan_dump {
        println!("plan:\n{p}");
    }
    for l in &r.trace_tail {
        println!("  {l}");
    }
    match &r.violation {
        Some(v) => {
            println!("violation class={} key={} detail={}", v.class, v.key, v.detail);
            let same_class = doc["expect_class"].as_str() == Some(v.class.as_str());
            let same_hash = doc["expect_det_hash"].as_u64() == Some(r.det_hash);
            if same_class && same_hash {
                println!("REPRODUCED exactly (same violation class, same event hash)");
            } else {
                println!("violation differs from the recorded one (class match={same_class}, hash match={same_hash})");
            }
            println!("VIOLATION property={prop} replay={path}");
            1
        }
        None => {
            if let Some(e) = r.harness_error {
                println!("harness error: {e}");
                return 2;
            }
            println!("no violation in this replay");
            0
        }
    }
}

pub fn check(prop: &str, tier: Tier) -> i32 {
    let t0 = Instant::now();
    let base: u64 = std::env::var("VERIF_SEED")
        .ok()
        .and_then(|s| s.parse().ok())
        .unwrap_or(1);
    let p = match props::get(prop) {
        Some(p) => p,
        None => {
            eprintln!("unknown property {prop}");
            return 2;
        }
    };
    let threads: usize = std::env::var("MLSIM_THREADS")
        .ok()
        .and_then(|s| s.parse().ok())
        .unwrap_or_else(|| std::thread::available_parallelism().map(|n| n.get()).unwrap_or(4));
    let count = std::env::var("MLSIM_RUNS")
        .ok()
        .and_then(|s| s.parse().ok())
        .unwrap_or_else(|| (p.budget)(tier));
    let wall_cap = std::env::var("MLSIM_WALL_S")
        .ok()
        .and_then(|s| s.parse().ok())
        .unwrap_or_else(|| (p.wall_cap_s)(tier));
    println!("mlsim check property={prop} tier={} VERIF_SEED={base} runs={count} threads={threads} wall_cap_s={wall_cap}", tier.name());

    let mut agg = Agg::default();
    let code = spawn_worker(prop, tier, base, 0, count, threads, Some(wall_cap), &mut agg);
    let mut aborted: Vec<u64> = vec![];
    let mut hung: Vec<u64> = vec![];
    if code != Some(0) {
        // the worker died (abort, stack overflow, kill): find the culprit among unfinished runs
        let unfinished: Vec<u64> = agg.started.difference(&agg.done).copied().collect();
        println!("worker process ended abnormally (code {:?}); re-running {} unfinished runs one by one", code, unfinished.len());
        for i in unfinished {
            if hung.len() + aborted.len() >= 2 {
                println!("(two culprits found; the remaining unfinished runs are not re-run)");
                break;
            }
            let mut one = Agg::default();
            let c = spawn_worker(prop, tier, base, i, 1, 1, None, &mut one);
            if c == Some(86) {
                hung.push(i);
            } else if c != Some(0) {
                aborted.push(i);
            } else {
                for v in one.violations.drain(..) {
                    agg.violations.push(v);
                }
                agg.evaluations += one.evaluations;
            }
        }
    }

    // determinism: re-run a sample in a second process with another thread count
    let mut reran = 0u64;
    let mut mismatches = vec![];
    {
        let sample: Vec<u64> = agg.det.keys().copied().step_by((agg.det.len() / 12).max(1)).take(16).collect();
        for i in sample {
            let mut one = Agg::default();
            let _ = spawn_worker(prop, tier, base, i, 1, 1, None, &mut one);
            if let (Some(a), Some(b)) = (agg.det.get(&i), one.det.get(&i)) {
                reran += 1;
                if a != b {
                    mismatches.push(i);
                }
            }
        }
    }

    let known = KnownFindings::load();
    let mut real_violations: Vec<Value> = vec![];
    let mut known_hits: BTreeMap<String, (u64, String)> = BTreeMap::new();
    agg.violations.sort_by_key(|v| v["i"].as_u64().unwrap_or(0));
    for v in &agg.violations {
        let key = v["violation"]["key"].as_str().unwrap_or("").to_string();
        if let Some(k) = known.open(prop, &key) {
            let e = known_hits.entry(key).or_insert((0, k["what"].as_str().unwrap_or("").to_string()));
            e.0 += 1;
        } else {
            real_violations.push(v.clone());
        }
    }
    for (key, (n, what)) in &known_hits {
        println!("KNOWN-FINDING: property={prop} {key}: {what} (hit in {n} runs)");
    }

    let mut exit = 0;
    let mut replay_paths = vec![];
    if !aborted.is_empty() || !hung.is_empty() {
        for (i, is_hang) in aborted.iter().map(|i| (i, false)).chain(hung.iter().map(|i| (i, true))) {
            let seed = run_seed(base, prop, *i);
            let mut r = Report::default();
            r.violation = Some(if is_hang {
                props::Violation {
                    class: "process-hang".into(),
                    key: "process-hang".into(),
                    detail: "the simulation stopped making progress in real time: a node's actor blocked in a real blocking call (e.g. a send on a full bounded channel towards an API stream nobody reads) and never returned to the simulated socket; every API call on that node hangs".into(),
                }
            } else {
                props::Violation {
                    class: "process-abort".into(),
                    key: "process-abort".into(),
                    detail: "the worker process aborted (abort/stack overflow/signal) while executing this run".into(),
                }
            });
            println!("violation in run i={i} seed={seed} class={}: {}", r.violation.as_ref().unwrap().class, r.violation.as_ref().unwrap().detail);
            let path = write_replay(prop, base, *i, seed, tier, &[], &r, if is_hang { "-hang" } else { "-abort" });
            println!("VIOLATION property={prop} replay={}", path.display());
            replay_paths.push(path.display().to_string());
        }
        exit = 1;
    }
    if let Some(first) = real_violations.first() {
        let seed = first["seed"].as_u64().unwrap();
        let index = first["i"].as_u64().unwrap_or(0);
        let class = first["violation"]["class"].as_str().unwrap_or("").to_string();
        let elements = first["elements"].as_u64().unwrap_or(0) as usize;
        println!(
            "violation in run i={} seed={seed} class={class}: {}",
            first["i"], first["violation"]["detail"].as_str().unwrap_or("")
        );
        let (disabled, best) = if elements > 0 {
            minimise(prop, base, index, seed, tier, &class, elements, 120)
        } else {
            (vec![], run_one(prop, &RunCtx::at(base, index, seed, tier)))
        };
        if best.violation.is_some() {
            println!("minimised: {} of {} plan elements disabled", disabled.len(), elements);
            let path = write_replay(prop, base, index, seed, tier, &disabled, &best, "");
            println!("VIOLATION property={prop} replay={}", path.display());
            replay_paths.push(path.display().to_string());
        } else {
            // could not re-create in the parent: still report, with the un-minimised seed
            let mut r = Report::default();
            r.violation = Some(props::Violation {
                class,
                key: first["violation"]["key"].as_str().unwrap_or("").into(),
                detail: first["violation"]["detail"].as_str().unwrap_or("").into(),
            });
            r.det_hash = first["det_hash"].as_u64().unwrap_or(0);
            let path = write_replay(prop, base, index, seed, tier, &[], &r, "");
            println!("VIOLATION property={prop} replay={}", path.display());
            replay_paths.push(path.display().to_string());
        }
        // other distinct violation classes: report each once, unminimised
        let mut seen: BTreeSet<String> = BTreeSet::new();
        seen.insert(first["violation"]["class"].as_str().unwrap_or("").to_string());
        for v in real_violations.iter().skip(1) {
            let c = v["violation"]["class"].as_str().unwrap_or("").to_string();
            if seen.insert(c.clone()) && seen.len() <= 4 {
                let seed = v["seed"].as_u64().unwrap();
                let idx = v["i"].as_u64().unwrap_or(0);
                let r = run_one(prop, &RunCtx::at(base, idx, seed, tier));
                if r.violation.is_some() {
                    let path = write_replay(prop, base, idx, seed, tier, &[], &r, "");
                    println!("VIOLATION property={prop} replay={}", path.display());
                    replay_paths.push(path.display().to_string());
                }
            }
        }
        exit = 1;
    }
    // batch-level statistical verdicts (success rate against a floor far below the baseline)
    let info = (p.info)();
    let mut floor_report = vec![];
    for (name, floor, min_n) in &info.floors {
        let ok = agg.probes.get(&format!("stat_{name}_ok")).copied().unwrap_or(0);
        let fail = agg.probes.get(&format!("stat_{name}_fail")).copied().unwrap_or(0);
        let n = ok + fail;
        let rate = if n > 0 { ok as f64 / n as f64 } else { 1.0 };
        floor_report.push(json!({"statistic": name, "ok": ok, "fail": fail, "rate": rate, "floor": floor, "min_samples": min_n, "judged": n >= *min_n}));
        if n >= *min_n && rate < *floor {
            let mut r = Report::default();
            r.violation = Some(props::Violation {
                class: "success-rate-below-floor".into(),
                key: format!("{name}-below-floor"),
                detail: format!("{name}: {ok} of {n} runs succeeded ({rate:.3}), floor {floor}"),
            });
            let path = write_replay(prop, base, 0, base, tier, &[], &r, "-floor");
            println!("VIOLATION property={prop} replay={}", path.display());
            replay_paths.push(path.display().to_string());
            exit = 1;
        }
    }
    let harness_problem = !agg.harness_errors.is_empty() || !mismatches.is_empty() || agg.evaluations == 0;
    if harness_problem && exit == 0 {
        for e in agg.harness_errors.iter().take(3) {
            eprintln!("harness error in run {}: {}", e["i"], e["harness_error"]);
        }
        if !mismatches.is_empty() {
            eprintln!("determinism mismatch in runs {:?}", mismatches);
        }
        exit = 2;
    }

    let wall = t0.elapsed().as_secs_f64();
    let evidence = json!({
        "property_id": prop,
        "tier": tier.name(),
        "seed": base,
        "level": "exploration",
        "coverage": {
            "evaluations": agg.evaluations,
            "distinct_nontrivial": agg.fingerprints.len(),
            "rule": info.rule,
            "samples": agg.samples,
            "nontrivial_runs": agg.nontrivial,
            "vacuous_runs": agg.vacuous,
            "runs_per_hour": if wall > 0.0 { (agg.evaluations as f64 / wall * 3600.0) as u64 } else { 0 },
            "sim_time_s": (agg.sim_time_ns / 1_000_000_000) as u64,
            "node_steps": agg.steps as u64,
            "faults_fired": agg.faults,
            "probes": agg.probes,
            "determinism": {"reran": reran, "mismatches": mismatches.len()},
            "max_run_wall_ms": agg.max_run_wall_ms,
            "statistical_verdicts": floor_report,
            "known_findings_hit": known_hits.iter().map(|(k, v)| json!({"key": k, "runs": v.0})).collect::<Vec<_>>(),
            "replays": replay_paths,
            "components": {
                "real": ["AsyncDht API", "actor::run loop", "Actor", "Core", "IterativeQuery", "PutQuery", "Server", "Tokens", "PeersStore", "SignedPeersStore", "RoutingTable", "ClosestNodes", "KRPC codec", "KrpcSocket (tids, in-flight table, RTT estimator)"],
                "stubbed": ["UdpSocket (in-memory network)", "Instant/SystemTime (virtual clock)", "getrandom (seeded)", "HashMap/HashSet hasher (seeded)", "actor thread (coroutine)"],
            },
            "exhaustive": false,
        },
        "assumptions": info.assumptions,
        "wall_s": wall,
        "violations": real_violations.len() + aborted.len() + hung.len(),
    });
    let dir = verif_dir().join("evidence");
    let _ = std::fs::create_dir_all(&dir);
    let _ = std::fs::write(dir.join(format!("{prop}.json")), serde_json::to_string_pretty(&evidence).unwrap());
    println!(
        "done property={prop} runs={} nontrivial={} distinct={} vacuous={} violations={} known={} sim_time_s={} wall_s={:.1} max_run_ms={} exit={exit}",
        agg.evaluations,
        agg.nontrivial,
        agg.fingerprints.len(),
        agg.vacuous,
        real_violations.len() + aborted.len() + hung.len(),
        known_hits.len(),
        (agg.sim_time_ns / 1_000_000_000) as u64,
        wall,
        agg.max_run_wall_ms
    );
    exit
}
