//! Seeded randomness. Everything random in a run derives from one u64.

pub fn splitmix64(x: u64) -> u64 {
    let mut z = x.wrapping_add(0x9E3779B97F4A7C15);
    z = (z ^ (z >> 30)).wrapping_mul(0xBF58476D1CE4E5B9);
    z = (z ^ (z >> 27)).wrapping_mul(0x94D049BB133111EB);
    z ^ (z >> 31)
}

/// Keyed, order-independent hash of a few integers (for per-datagram decisions).
pub fn key(seed: u64, parts: &[u64]) -> u64 {
    let mut h = splitmix64(seed ^ 0x51ed_27c3_11aa_9d01);
    for p in parts {
        h = splitmix64(h ^ splitmix64(*p));
    }
    h
}

pub fn tag(s: &str) -> u64 {
    let mut h: u64 = 0xcbf29ce484222325;
    for b in s.bytes() {
        h ^= b as u64;
        h = h.wrapping_mul(0x100000001b3);
    }
    h
}

#[derive(Clone, Debug)]
pub struct Rng(u64);

impl Rng {
    pub fn new(seed: u64) -> Self {
        Rng(splitmix64(seed ^ 0xA5A5_5A5A_1234_5678))
    }
    pub fn fork(&mut self, label: &str) -> Rng {
        Rng::new(self.next_u64() ^ tag(label))
    }
    pub fn next_u64(&mut self) -> u64 {
        self.0 = self.0.wrapping_add(0x9E3779B97F4A7C15);
        let mut z = self.0;
        z = (z ^ (z >> 30)).wrapping_mul(0xBF58476D1CE4E5B9);
        z = (z ^ (z >> 27)).wrapping_mul(0x94D049BB133111EB);
        z ^ (z >> 31)
    }
    /// uniform in 0..n (n>0)
    pub fn below(&mut self, n: u64) -> u64 {
        if n == 0 {
            return 0;
        }
        self.next_u64() % n
    }
    /// uniform in lo..=hi
    pub fn range(&mut self, lo: u64, hi: u64) -> u64 {
        lo + self.below(hi - lo + 1)
    }
    pub fn usize(&mut self, lo: usize, hi: usize) -> usize {
        self.range(lo as u64, hi as u64) as usize
    }
    pub fn chance(&mut self, num: u64, den: u64) -> bool {
        self.below(den) < num
    }
    pub fn f64(&mut self) -> f64 {
        (self.next_u64() >> 11) as f64 / (1u64 << 53) as f64
    }
    pub fn pick<'a, T>(&mut self, xs: &'a [T]) -> &'a T {
        &xs[self.below(xs.len() as u64) as usize]
    }
    pub fn fill(&mut self, buf: &mut [u8]) {
        for chunk in buf.chunks_mut(8) {
            let v = self.next_u64().to_le_bytes();
            chunk.copy_from_slice(&v[..chunk.len()]);
        }
    }
    pub fn bytes(&mut self, n: usize) -> Vec<u8> {
        let mut v = vec![0u8; n];
        self.fill(&mut v);
        v
    }
    pub fn id(&mut self) -> [u8; 20] {
        let mut v = [0u8; 20];
        self.fill(&mut v);
        v
    }
    pub fn shuffle<T>(&mut self, xs: &mut [T]) {
        for i in (1..xs.len()).rev() {
            let j = self.below(i as u64 + 1) as usize;
            xs.swap(i, j);
        }
    }
}
