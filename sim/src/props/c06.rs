//! C06 — every API call terminates with exactly one outcome.
//! One caller issues a seeded mix of overlapping calls on equal and different targets while the
//! network loses, duplicates, delays (beyond the timeout) and reorders, peers go silent or answer
//! garbage, the caller is stalled and its clock is skewed. Every future must resolve / every stream
//! must end by a horizon derived from the request timeout and the number of addresses contacted,
//! nothing may panic, and no stream may yield more items than accepted value-bearing replies.

use std::cell::RefCell;
use std::collections::{BTreeMap, BTreeSet};
use std::net::SocketAddrV4;
use std::rc::Rc;

use serde_json::json;

use crate::bencode::Value;
use crate::krpc::{self, Id, Item, Krpc};
use crate::props::common::*;
use crate::props::{PropInfo, Property, Report, RunCtx, Tier};
use crate::rawnet::*;
use crate::rng::Rng;
use crate::sim::*;


type Ops = Rc<RefCell<Vec<(usize, String, [u8; 20], OpId)>>>;

/// Termination / panic / exactly-once verdicts shared by the random and the sweep scenarios.
#[allow(clippy::too_many_arguments)]
fn judge(sim: &Sim, report: &mut Report, caller: HostId, ops: &Ops, last_issue: u64, stall_total: u64, ppm: i64, tau_max: &Rc<RefCell<u64>>, n_peers: usize) {
    let caller_addr = sim.node_addr(caller);
    let (n_raw, n_real) = (n_peers, 0usize);
    // horizon: (A + 2) * (tau_max + 1 s) + 5 s after the last issue, A = addresses the caller contacted
    let mut deadline;
    loop {
        let contacted: BTreeSet<SocketAddrV4> = sim.with_trace(|tr| tr.iter().filter(|d| d.from_host == Some(caller)).map(|d| d.dst).collect());
        let a = contacted.len() as u64 + n_raw as u64 + n_real as u64;
        let tau = *tau_max.borrow();
        let skew = 1.0 + (ppm.unsigned_abs() as f64) / 1_000_000.0 + 0.01;
        deadline = last_issue + (((a + 2) * (tau + SEC) + 5 * SEC) as f64 * skew) as u64 + stall_total;
        let ids: Vec<OpId> = ops.borrow().iter().map(|o| o.3).collect();
        let all = sim.run_ops(&ids, deadline.min(sim.now() + 10 * SEC));
        if all || sim.now() >= deadline {
            break;
        }
    }
    report.probe("horizon_s", (deadline - last_issue) / SEC);

    // ---- verdicts
    if let Some(d) = sim.died(caller) {
        report.violate("node-died", "caller-actor-panicked", format!("caller died: {d}"));
    }
    // value-bearing replies delivered to the caller, per target
    let valued: BTreeMap<[u8; 20], usize> = sim.with_trace(|tr| {
        let mut req: BTreeMap<(SocketAddrV4, u32), [u8; 20]> = BTreeMap::new();
        let mut seen: BTreeSet<(SocketAddrV4, u32)> = BTreeSet::new();
        let mut out: BTreeMap<[u8; 20], usize> = BTreeMap::new();
        for d in tr.iter() {
            let Some(k) = Krpc::parse(&d.bytes) else { continue };
            if d.from_host == Some(caller) && k.is_query() {
                if let Some(t) = k.target() {
                    req.insert((d.dst, k.tid_u32().unwrap_or(0)), t);
                }
            }
            if d.dst == caller_addr && d.fate == Fate::Delivered && k.is_response() {
                let has_value = k.body.get("v").is_some() || k.body.get("values").is_some() || k.body.get("peers").is_some();
                if has_value {
                    if let Some(t) = req.get(&(d.src, k.tid_u32().unwrap_or(0))) {
                        if seen.insert((d.src, k.tid_u32().unwrap_or(0))) {
                            *out.entry(*t).or_insert(0) += 1;
                        }
                    }
                }
            }
        }
        out
    });
    let local_puts: BTreeMap<[u8; 20], usize> = {
        let mut m = BTreeMap::new();
        for (_, label, t, _) in ops.borrow().iter() {
            if label == "put_mutable" || label == "announce_signed_peer" {
                *m.entry(*t).or_insert(0) += 1;
            }
        }
        m
    };
    for (i, label, target, id) in ops.borrow().iter() {
        let (done, panicked, issued) = sim.with_op(*id, |o| (o.done(), o.panicked.clone(), o.issued_at));
        if let Some(p) = panicked {
            report.violate("api-panic", &format!("api-call-panicked:{label}"), format!("call[{i}] {label} panicked: {p}"));
            continue;
        }
        if !done {
            // which other calls share the target (the interesting part of a hang report)
            let sharing: Vec<String> = ops.borrow().iter().filter(|o| o.2 == *target && o.0 != *i).map(|o| o.1.clone()).collect();
            let key = if !sharing.is_empty() && label.starts_with("put") || label.starts_with("announce") && !sharing.is_empty() {
                format!("hang:{label}-overlapping-{}", sharing.first().cloned().unwrap_or_default())
            } else {
                format!("hang:{label}")
            };
            report.violate("hang", &key, format!("call[{i}] {label}(target {}) issued at t={:.3}s has not completed {:.1}s later (horizon {:.1}s after the last issue); calls on the same target: {sharing:?}", hex8(target), issued as f64 / SEC as f64, (sim.now() - issued) as f64 / SEC as f64, (deadline - last_issue) as f64 / SEC as f64));
            continue;
        }
        let items = sim.with_op(*id, |o| match &o.outcome {
            Some(Outcome::Mutable(v)) => Some(v.len()),
            Some(Outcome::Peers(v)) => Some(v.len()),
            Some(Outcome::SignedPeers(v)) => Some(v.len()),
            _ => None,
        });
        if let Some(n) = items {
            let cap = valued.get(target).copied().unwrap_or(0) + local_puts.get(target).copied().unwrap_or(0);
            if n > cap {
                report.violate("exactly-once", "stream-yielded-more-items-than-replies", format!("call[{i}] {label} yielded {n} items but only {cap} distinct value-bearing replies (plus local in-flight puts) exist for its target"));
            }
            report.probe("stream_items", n as u64);
        }
    }
}

#[derive(Clone, Debug)]
enum SweepFault {
    Dgram(SocketAddrV4, SocketAddrV4, u64, Explicit),
    /// scripted peer goes silent (crashes) from this instant on
    Crash(usize, u64),
}

/// One small fault-free scenario, fully determined by `seed`; returns the caller-side datagram list.
fn sweep_execute(seed: u64, faults: &[SweepFault], report: &mut Report, plan: &mut Vec<String>) -> Vec<(SocketAddrV4, SocketAddrV4, u64, u64)> {
    let mut rng = Rng::new(seed);
    let net = NetCfg {
        latency_min_us: 500,
        latency_max_us: rng.range(2_000, 80_000),
        ..NetCfg::default()
    };
    let sim = Sim::new(seed, net);
    sim.set_snap_mode(SnapMode::Every);
    let rawnet = RawNet::new();
    let n_raw = rng.usize(2, 5);
    let value = b"sweep value".to_vec();
    let key = krpc::signing_key(rng.bytes(32).try_into().unwrap());
    let item = Item::signed(&key, None, 3, b"stored");
    let ih = rng.id();
    let mut addrs = vec![];
    for i in 0..n_raw {
        let addr = SocketAddrV4::new(priv_ip(70 + i), 6881);
        let mut p = Peer::new(rng.id(), addr);
        p.k = 20;
        p.delay = rng.range(0, 120) * MS;
        if i == 0 {
            p.immutable.insert(krpc::immutable_target(&value), value.clone());
            p.mutable.insert(item.target(), item.clone());
            p.peers.insert(ih, vec![SocketAddrV4::new(priv_ip(900), 9)]);
        }
        rawnet.add(&sim, p);
        addrs.push(addr);
    }
    for i in 0..n_raw {
        rawnet.with_peer(i, |p| p.knows = (0..n_raw).collect());
    }
    let crashes: Vec<(usize, u64)> = faults.iter().filter_map(|f| if let SweepFault::Crash(p, t) = f { Some((*p, *t)) } else { None }).collect();
    if !crashes.is_empty() {
        rawnet.set_hook(Box::new(move |rctx, _sh, idx, _from, _msg: &Krpc| {
            if crashes.iter().any(|(p, t)| *p == idx && rctx.now >= *t) {
                HookResult::Handled
            } else {
                HookResult::Default
            }
        }));
    }
    for f in faults {
        if let SweepFault::Dgram(a, b, k, e) = f {
            sim.set_explicit(*a, *b, *k, e.clone());
        }
    }
    let mut cspec = NodeSpec::new(priv_ip(1), 6881);
    cspec.server_mode = rng.chance(1, 3);
    cspec.bootstrap = addrs.iter().map(|a| a.to_string()).collect();
    let tau_max: Rc<RefCell<u64>> = Rc::new(RefCell::new(500 * MS));
    let caller_cell: Rc<RefCell<Option<HostId>>> = Default::default();
    {
        let tau = tau_max.clone();
        let cc = caller_cell.clone();
        sim.set_observer(Box::new(move |h, _now, s| {
            if Some(h) == *cc.borrow() {
                let mut t = tau.borrow_mut();
                *t = (*t).max(s.socket.request_timeout_ns);
            }
        }));
    }
    let caller = sim.add_node(cspec);
    *caller_cell.borrow_mut() = Some(caller);
    sim.run_for(2 * SEC);
    let ops: Ops = Default::default();
    let n_calls = rng.usize(1, 3);
    let t_first = sim.now();
    let mut last_issue = t_first;
    for i in 0..n_calls {
        let kind = rng.below(8);
        let at = t_first + rng.range(0, 800) * MS;
        last_issue = last_issue.max(at);
        let (label, target): (&str, [u8; 20]) = match kind {
            0 => ("put_immutable", krpc::immutable_target(&value)),
            1 => ("put_mutable", item.target()),
            2 => ("announce_peer", ih),
            3 => ("get_immutable", krpc::immutable_target(&value)),
            4 => ("get_mutable", item.target()),
            5 => ("get_peers", ih),
            6 => ("find_node", krpc::immutable_target(&value)),
            _ => ("get_closest_nodes", ih),
        };
        plan.push(format!("call[{i}] t={:.3}s {label}", at as f64 / SEC as f64));
        let ops2 = ops.clone();
        let (value, key) = (value.clone(), key.clone());
        sim.at(at, move |sim| {
            let pk = key.verifying_key().to_bytes();
            let op = match kind {
                0 => sim.put_immutable(caller, value),
                1 => sim.put_mutable(caller, dht::MutableItem::new(&key, b"newer", 4, None), None),
                2 => sim.announce_peer(caller, ih, Some(77)),
                3 => sim.get_immutable(caller, krpc::immutable_target(&value)),
                4 => sim.get_mutable(caller, pk, None, None),
                5 => sim.get_peers(caller, ih),
                6 => sim.find_node(caller, krpc::immutable_target(&value)),
                _ => sim.get_closest_nodes(caller, ih),
            };
            ops2.borrow_mut().push((i, label.to_string(), target, op));
        });
    }
    sim.run_until(last_issue + MS);
    judge(&sim, report, caller, &ops, last_issue, 0, 0, &tau_max, n_raw);
    let caller_addr = sim.node_addr(caller);
    let list: Vec<(SocketAddrV4, SocketAddrV4, u64, u64)> = sim.with_trace(|tr| tr.iter().filter(|d| d.dup_of.is_none() && d.t_send >= t_first && (d.src == caller_addr || d.dst == caller_addr)).map(|d| (d.src, d.dst, d.k, d.t_send)).collect());
    report.absorb_stats(&sim.stats());
    report.det_hash = crate::rng::key(report.det_hash, &[sim.fingerprint()]);
    report.fingerprint = sim.order_fingerprint();
    report.sim_time_ns += sim.now();
    if report.violation.is_some() && report.trace_tail.is_empty() {
        report.trace_tail = trace_tail(&sim, 40);
    }
    sim.teardown();
    list
}

fn report_pairs_distinct(plan: &mut Vec<String>, total: u64) {
    plan.push(format!("pair enumeration: {total} pairs of single faults in this scenario"));
}

/// Enumerated single-fault / peer-crash sweep over a small scenario (one element per run).
fn sweep(ctx: &RunCtx, elem: u64) -> Report {
    // thorough tier: the element space alternates between 4096 elements of single-fault groups (16
    // scenarios x 256 elements, as in the quick tier) and 4096 elements that enumerate *every pair* of
    // single faults of one further scenario in lexicographic order
    let pairs_mode = ctx.tier == Tier::Thorough && (elem / 4096) % 2 == 1;
    let dense = if ctx.tier == Tier::Thorough { (elem / 8192) * 4096 + elem % 4096 } else { elem };
    let group = if pairs_mode { elem / 8192 } else { dense / 256 };
    let within = if pairs_mode { (elem % 4096) as usize } else { (dense % 256) as usize };
    let seed = crate::rng::key(ctx.base, &[crate::rng::tag(if pairs_mode { "c06-pairs" } else { "c06-sweep" }), group]);
    let mut plan = vec![format!("sweep {}group={group} element={within} scenario_seed={seed}", if pairs_mode { "all-pairs " } else { "" })];
    // baseline (fault-free): which datagrams exist
    let mut base_report = Report::default();
    let list = sweep_execute(seed, &[], &mut base_report, &mut vec![]);
    if let Some(v) = base_report.violation {
        let mut r = Report::default();
        r.violate(&v.class, &v.key, format!("in the fault-free baseline of the sweep: {}", v.detail));
        r.plan_dump = Some(plan.join("\n"));
        r.nontrivial = true;
        r.det_hash = base_report.det_hash;
        return r;
    }
    let n = list.len().max(1);
    let peers: Vec<SocketAddrV4> = {
        let mut p: Vec<SocketAddrV4> = list.iter().map(|d| d.1).chain(list.iter().map(|d| d.0)).collect();
        p.sort();
        p.dedup();
        p
    };
    // element order: each datagram x {drop, duplicate, delay past the timeout}, then each peer x
    // each datagram instant (crash), then hash-chosen pairs
    let singles = 3 * n;
    let n_peers = 5usize;
    let crashes = n_peers * n;
    let mut faults: Vec<SweepFault> = vec![];
    let dgram_fault = |j: usize| -> SweepFault {
        let d = list[(j / 3) % n];
        let e = match j % 3 {
            0 => Explicit::Drop,
            1 => Explicit::Dup(40 * MS),
            _ => Explicit::Delay(2 * SEC),
        };
        SweepFault::Dgram(d.0, d.1, d.2, e)
    };
    if pairs_mode {
        let m = singles as u64;
        let total = m * (m - 1) / 2;
        let mut idx = within as u64 % total.max(1);
        let mut a = 0u64;
        while m > 1 && idx >= m - 1 - a {
            idx -= m - 1 - a;
            a += 1;
        }
        let b = a + 1 + idx;
        faults.push(dgram_fault(a as usize));
        faults.push(dgram_fault((b % m) as usize));
        if (within as u64) < total {
            report_pairs_distinct(&mut plan, total);
        }
    } else if within < singles {
        faults.push(dgram_fault(within));
    } else if within < singles + crashes {
        let c = within - singles;
        faults.push(SweepFault::Crash(c / n, list[c % n].3));
    } else {
        let h = crate::rng::key(seed, &[within as u64]);
        faults.push(dgram_fault((h % singles as u64) as usize));
        faults.push(dgram_fault(((h >> 20) % singles as u64) as usize));
    }
    plan.push(format!("baseline: {n} caller-side datagrams, peers {peers:?}"));
    plan.push(format!("faults: {faults:?}"));
    let mut report = Report::default();
    report.det_hash = base_report.det_hash;
    let _ = sweep_execute(seed, &faults, &mut report, &mut plan);
    report.nontrivial = true;
    report.probe("sweep_runs", 1);
    match &faults[0] {
        SweepFault::Dgram(_, _, _, Explicit::Drop) => report.probe("sweep_single_drop", 1),
        SweepFault::Dgram(_, _, _, Explicit::Dup(_)) => report.probe("sweep_single_dup", 1),
        SweepFault::Dgram(_, _, _, Explicit::Delay(_)) => report.probe("sweep_single_delay", 1),
        SweepFault::Crash(..) => report.probe("sweep_peer_crash", 1),
    }
    if faults.len() > 1 {
        report.probe("sweep_pair", 1);
    }
    if pairs_mode {
        report.probe("sweep_enumerated_pair", 1);
        if (within as u64) < (singles as u64) * (singles as u64 - 1) / 2 {
            report.probe("sweep_enumerated_pair_first_pass", 1);
        }
        if within == 0 {
            report.probe("sweep_pair_scenarios", 1);
            report.probe("sweep_pair_scenarios_total_pairs", (singles as u64) * (singles as u64 - 1) / 2);
        }
    }
    report.fingerprint = crate::rng::key(report.fingerprint, &[group, within as u64]);
    report.sample = Some(json!({"sweep": plan}));
    report.plan_dump = Some(plan.join("\n"));
    report
}

fn run(ctx: &RunCtx) -> Report {
    let step = match ctx.tier {
        Tier::Quick => 5,
        Tier::Thorough => 2,
    };
    if ctx.index % step == step - 1 {
        return sweep(ctx, ctx.index / step);
    }
    let mut report = Report::default();
    let mut rng = Rng::new(ctx.seed);
    let faulty = rng.chance(4, 5);
    let net = NetCfg {
        latency_min_us: 500,
        latency_max_us: rng.range(2_000, 150_000),
        drop_ppm: if faulty && rng.chance(2, 3) { rng.range(10_000, 350_000) as u32 } else { 0 },
        dup_ppm: if faulty && rng.chance(1, 2) { rng.range(10_000, 300_000) as u32 } else { 0 },
        slow_ppm: if faulty && rng.chance(1, 2) { rng.range(10_000, 200_000) as u32 } else { 0 },
        corrupt_ppm: if faulty && rng.chance(1, 5) { rng.range(10_000, 80_000) as u32 } else { 0 },
        slow_extra_ms: (400, 4000),
        ..NetCfg::default()
    };
    let sim = Sim::new(ctx.seed, net.clone());
    sim.set_snap_mode(SnapMode::Every);
    let rawnet = RawNet::new();
    // 1 run in 6: a *held stream* - the application opens a get stream and does not read from it for a
    // while (a slow consumer) while its other calls run; 20..70 peers all hold values for that target and
    // are all in the bootstrap list, so that many values queue up on the undrained stream
    let held_stream = rng.chance(1, 6);
    let n_raw = if held_stream { rng.usize(20, 70) } else { rng.usize(2, 14) };
    let n_real = rng.usize(0, 3);
    // 1 run in 25 (own random stream): a *deep network* - 210..280 further peers form a long descent towards one
    // of the targets: each knows only the next three closer ones, so a lookup of that target contacts every one
    // of them (well over 200 addresses) and is told about a closer node by almost every answer
    let mut drng = Rng::new(crate::rng::key(ctx.seed, &[crate::rng::tag("c06-deep")]));
    let deep = !held_stream && drng.chance(1, 25);
    // 1 run in 5 (own random stream, so that the other draws stay as they were): a *public caller* - a
    // node on a routable address without a configured public_ip. Its peers vote for its address, it pings
    // itself and re-keys to a BEP42 id at a seeded instant of its first seconds, while a dense train of
    // bootstrapped() calls (each one a find_node of the id the node has at that instant) is in flight:
    // a caller waiting for a lookup of the *previous* id must still get its answer.
    let mut prng = Rng::new(crate::rng::key(ctx.seed, &[crate::rng::tag("c06-public-caller")]));
    let public_caller = !held_stream && prng.chance(1, 5);
    let mut addrs = vec![];
    // object pool (few targets so that calls collide)
    let keys: Vec<_> = (0..2).map(|_| krpc::signing_key(rng.bytes(32).try_into().unwrap())).collect();
    let values: Vec<Vec<u8>> = (0..2).map(|i| format!("value-{i}").into_bytes()).collect();
    let hashes: Vec<Id> = (0..2).map(|_| rng.id()).collect();
    let stored_item = Item::signed(&keys[0], None, 3, b"stored");
    let garbage_contacts = rng.chance(1, 4);
    if garbage_contacts {
        report.probe("garbage_contact_runs", 1);
    }
    for i in 0..n_raw {
        let addr = SocketAddrV4::new(priv_ip(70 + i), 6881);
        let mut p = Peer::new(rng.id(), addr);
        p.k = *rng.pick(&[4usize, 8, 20]);
        p.delay = rng.range(0, 300) * MS;
        if rng.chance(1, 2) || held_stream {
            p.immutable.insert(krpc::immutable_target(&values[0]), values[0].clone());
            p.mutable.insert(stored_item.target(), stored_item.clone());
            p.peers.insert(hashes[0], vec![SocketAddrV4::new(priv_ip(900 + i), 9)]);
            if held_stream {
                let t = 1_767_225_600_000_000u64 + i as u64;
                let k = krpc::signing_key([i as u8; 32]);
                p.signed.insert(hashes[0], vec![(k.verifying_key().to_bytes(), t, krpc::sign(&k, &krpc::signed_announce_signable(&hashes[0], t)))]);
            }
        }
        if held_stream {
            p.delay = rng.range(0, 120) * MS;
        }
        p.put_reply = match rng.below(6) {
            0 => PutReply::Silent,
            1 => PutReply::Error(*rng.pick(&[203i64, 301, 302, 205])),
            _ => PutReply::Ack,
        };
        if garbage_contacts {
            // contacts the OS refuses to send to (port 0, broadcast): `send_to` fails for them
            for _ in 0..rng.usize(1, 3) {
                let a = if rng.chance(1, 2) { SocketAddrV4::new(priv_ip(8000 + rng.usize(0, 100)), 0) } else { SocketAddrV4::new(std::net::Ipv4Addr::BROADCAST, rng.range(1024, 60000) as u16) };
                p.extra_nodes.push((rng.id(), a));
            }
        }
        rawnet.add(&sim, p);
        addrs.push(addr);
    }
    let mut deep_head: Option<usize> = None;
    if deep {
        let m = drng.usize(210, 280);
        let target = hashes[0];
        let base = rawnet.len();
        for i in 0..m {
            // distance to the target shrinks with i: the first differing bit moves from bit 0 towards bit 150
            let level = i * 150 / m;
            let mut id = target;
            id[level / 8] ^= 0x80 >> (level % 8);
            for b in (level / 8 + 2)..20 {
                id[b] = drng.below(256) as u8;
            }
            let mut p = Peer::new(id, SocketAddrV4::new(priv_ip(2000 + i), 6881));
            p.k = 20;
            p.delay = drng.range(0, 30) * MS;
            p.knows = (i + 1..(i + 4).min(m)).map(|x| base + x).collect();
            rawnet.add(&sim, p);
        }
        deep_head = Some(base);
        report.probe("deep_network_runs", 1);
    }
    // limited knowledge so that lookups iterate
    for i in 0..n_raw {
        let mut knows: Vec<usize> = (0..n_raw).collect();
        rng.shuffle(&mut knows);
        knows.truncate(rng.usize(1, n_raw));
        // (the shallow end of the deep descent is known to every ordinary peer)
        let knows = if let Some(h) = deep_head { let mut k = knows; k.push(h); k } else { knows };
        rawnet.with_peer(i, |p| p.knows = knows);
    }
    for j in 0..n_real {
        let mut s = NodeSpec::new(priv_ip(10 + j), 6881).server();
        s.bootstrap = addrs.iter().take(2).map(|a| a.to_string()).collect();
        let h = sim.add_node(s);
        addrs.push(sim.node_addr(h));
    }
    // Byzantine / silent behaviour: per-peer, switched on at a seeded instant
    let n_bad = if faulty { rng.usize(0, n_raw / 2) } else { 0 };
    let mut bad: Vec<(usize, u64, u64)> = vec![]; // (peer, from time, kind: 0 silent(crash) 1 garbage 2 error)
    for _ in 0..n_bad {
        bad.push((rng.usize(0, n_raw - 1), rng.range(0, 12) * SEC, rng.below(3)));
    }
    let n_calls = rng.usize(1, 9);
    report.elements = n_calls + bad.len();
    let bad_active: Vec<(usize, u64, u64)> = bad.iter().enumerate().filter(|(i, _)| ctx.enabled(n_calls + i)).map(|(_, b)| *b).collect();
    {
        let bad = bad_active.clone();
        let mut hr = Rng::new(ctx.seed ^ 0xc06);
        rawnet.set_hook(Box::new(move |rctx, sh, idx, from, msg: &Krpc| {
            let Some(b) = bad.iter().find(|b| b.0 == idx && rctx.now >= b.1) else {
                return HookResult::Default;
            };
            match b.2 {
                0 => HookResult::Handled, // crashed peer: silence
                1 => {
                    let opts = opts_for(&sh.peers[idx], from);
                    let r = crate::hostile::random_bencode(&mut hr, 3);
                    let me = rctx.me;
                    rctx.send_after(0, me, from, krpc::response(&msg.tid, r, &opts));
                    HookResult::Handled
                }
                _ => {
                    let opts = opts_for(&sh.peers[idx], from);
                    let me = rctx.me;
                    rctx.send_after(0, me, from, krpc::error(&msg.tid, *hr.pick(&[201i64, 202, 203, 204, 301, 302]), "x", &opts));
                    HookResult::Handled
                }
            }
        }));
    }

    // caller
    let mut cspec = NodeSpec::new(if public_caller { pub_ip(&mut prng) } else { priv_ip(1) }, 6881);
    cspec.server_mode = rng.chance(1, 3);
    cspec.bootstrap = addrs.iter().map(|a| a.to_string()).take(if held_stream { addrs.len() } else { rng.usize(1, 4) }).collect();
    if faulty && rng.chance(1, 3) {
        cspec.clock_ppm = rng.range(0, 100_000) as i64 - 50_000;
    }
    let ppm = cspec.clock_ppm;
    // largest request timeout the caller ever reports
    let tau_max: Rc<RefCell<u64>> = Rc::new(RefCell::new(500 * MS));
    let caller_cell: Rc<RefCell<Option<HostId>>> = Default::default();
    // (time, old id) of every id change of the caller
    let rekeys: Rc<RefCell<Vec<(u64, [u8; 20])>>> = Default::default();
    {
        let tau = tau_max.clone();
        let cc = caller_cell.clone();
        let rk = rekeys.clone();
        let mut last_id: Option<[u8; 20]> = None;
        sim.set_observer(Box::new(move |h, now, s| {
            if Some(h) == *cc.borrow() {
                let mut t = tau.borrow_mut();
                *t = (*t).max(s.socket.request_timeout_ns);
                if let Some(old) = last_id {
                    if old != s.routing_table.id {
                        rk.borrow_mut().push((now, old));
                    }
                }
                last_id = Some(s.routing_table.id);
            }
        }));
    }
    let caller = sim.add_node(cspec);
    *caller_cell.borrow_mut() = Some(caller);
    let caller_addr = sim.node_addr(caller);
    let pre_run = rng.range(0, 4) * SEC;
    sim.run_for(if public_caller { 0 } else { pre_run });

    // calls
    let t_first = sim.now();
    let mut plan: Vec<String> = vec![format!(
        "caller {caller_addr} ppm={ppm} raw={n_raw} real={n_real} net(drop={},dup={},slow={},corrupt={}) bad={bad_active:?}",
        net.drop_ppm, net.dup_ppm, net.slow_ppm, net.corrupt_ppm
    )];
    let ops: Rc<RefCell<Vec<(usize, String, [u8; 20], OpId)>>> = Default::default();
    let mut last_issue = t_first;
    let mut stall_total = 0u64;
    // a guaranteed "lookup of another kind is active on the put's target" pattern in some runs
    let force_overlap = rng.chance(1, 4);
    // ... and in some runs two put_mutable calls for one key right after each other, the second with a
    // seq around the first's and a cas around it (the local conflict rules must not strand a caller)
    let force_mutable_pair = !force_overlap && n_calls >= 2 && rng.chance(1, 4);
    if force_mutable_pair {
        report.probe("forced_put_mutable_pairs", 1);
    }
    for i in 0..n_calls {
        let mut r = Rng::new(crate::rng::key(ctx.seed, &[crate::rng::tag("call"), i as u64]));
        if !ctx.enabled(i) {
            continue;
        }
        let at = t_first + r.range(0, 3000) * MS * (i as u64).min(3) / 3 + if r.chance(1, 3) { 0 } else { r.range(0, 600) * MS };
        last_issue = last_issue.max(at);
        let mut j = r.usize(0, 1);
        let mut at = at;
        if force_mutable_pair && i < 2 {
            j = 0;
            if i == 1 {
                at = t_first + r.range(0, 700) * MS;
            } else {
                at = t_first;
            }
            last_issue = last_issue.max(at);
        }
        let mut kind = r.below(12);
        if force_overlap && i < 2 {
            kind = if i == 0 { 7 } else { 0 };
        }
        if force_mutable_pair && i < 2 {
            kind = 1;
        }
        if deep && i == 0 {
            kind = *r.pick(&[8u64, 6, 2]);
            j = 0;
        }
        let held = held_stream && i == 0;
        if held {
            kind = *r.pick(&[5u64, 6, 9]);
            j = 0;
            at = t_first;
        }
        // the application starts reading 1.5 - 6 s after it opened the stream
        let release_at = at + r.range(1500, 6000) * MS;
        if held {
            last_issue = last_issue.max(release_at);
        }
        let (label, target): (&str, [u8; 20]) = match kind {
            0 => ("put_immutable", krpc::immutable_target(&values[if force_overlap && i < 2 { 0 } else { j }])),
            1 => ("put_mutable", krpc::mutable_target(&keys[j].verifying_key().to_bytes(), None)),
            2 => ("announce_peer", hashes[j]),
            3 => ("announce_signed_peer", hashes[j]),
            4 => ("get_immutable", krpc::immutable_target(&values[j])),
            5 => ("get_mutable", krpc::mutable_target(&keys[j].verifying_key().to_bytes(), None)),
            6 => ("get_peers", hashes[j]),
            7 => ("find_node", krpc::immutable_target(&values[if force_overlap && i < 2 { 0 } else { j }])),
            8 => ("get_closest_nodes", hashes[j]),
            9 => ("get_signed_peers", hashes[j]),
            10 => ("get_mutable_most_recent", krpc::mutable_target(&keys[j].verifying_key().to_bytes(), None)),
            _ => ("bootstrapped", [0; 20]),
        };
        plan.push(format!("call[{i}] t={:.3}s {label} target={}{}", at as f64 / SEC as f64, hex8(&target), if held { format!(" (stream not read before t={:.3}s)", release_at as f64 / SEC as f64) } else { String::new() }));
        let ops = ops.clone();
        let (values, keys, hashes) = (values.clone(), keys.clone(), hashes.clone());
        let vj = if force_overlap && i < 2 { 0 } else { j };
        // put_mutable arguments: seqs and cas values collide across calls, two different values
        let seq = if r.chance(1, 2) { 4 + i as i64 } else { r.range(3, 7) as i64 };
        let cas: Option<i64> = match r.below(4) {
            0 | 1 => None,
            _ => Some(r.range(3, 8) as i64),
        };
        let mval: &'static [u8] = if r.chance(1, 2) { b"mv" } else { b"mw" };
        if kind == 1 {
            plan.push(format!("         put_mutable seq={seq} cas={cas:?} value={}", String::from_utf8_lossy(mval)));
        }
        // get_mutable: half of the calls ask only for items more recent than some seq (around the seqs in use)
        let more_recent_than: Option<i64> = if r.chance(1, 2) { Some(r.range(1, 7) as i64) } else { None };
        sim.at(at, move |sim| {
            let pk = keys[j].verifying_key().to_bytes();
            let op = match kind {
                0 => sim.put_immutable(caller, values[vj].clone()),
                1 => sim.put_mutable(caller, dht::MutableItem::new(&keys[j], mval, seq, None), cas),
                2 => sim.announce_peer(caller, hashes[j], Some(77)),
                3 => sim.announce_signed_peer(caller, hashes[j], [9u8; 32]),
                4 => sim.get_immutable(caller, krpc::immutable_target(&values[j])),
                5 if held => sim.get_mutable_held(caller, pk, None, release_at),
                6 if held => sim.get_peers_held(caller, hashes[j], release_at),
                9 if held => sim.get_signed_peers_held(caller, hashes[j], release_at),
                5 => sim.get_mutable(caller, pk, None, more_recent_than),
                6 => sim.get_peers(caller, hashes[j]),
                7 => sim.find_node(caller, krpc::immutable_target(&values[vj])),
                8 => sim.get_closest_nodes(caller, hashes[j]),
                9 => sim.get_signed_peers(caller, hashes[j]),
                10 => sim.get_mutable_most_recent(caller, pk, None),
                _ => sim.bootstrapped(caller),
            };
            ops.borrow_mut().push((i, label.to_string(), target, op));
        });
    }
    // public caller: the train of bootstrapped() calls around the instant of the re-key
    let mut train = 0usize;
    if public_caller {
        report.probe("public_caller_runs", 1);
        let m = prng.usize(10, 40);
        let step = prng.range(15, 80) * MS;
        let start = t_first + prng.range(0, 600) * MS;
        for e in 0..m {
            if !ctx.enabled(n_calls + bad.len() + e) {
                continue;
            }
            let at = start + e as u64 * step;
            last_issue = last_issue.max(at);
            let ops = ops.clone();
            train += 1;
            sim.at(at, move |sim| {
                let op = sim.bootstrapped(caller);
                ops.borrow_mut().push((1000 + e, "bootstrapped".to_string(), [0; 20], op));
            });
        }
        report.elements += m;
        plan.push(format!("public caller: {m} bootstrapped() calls every {} ms from t={:.3}s", step / MS, start as f64 / SEC as f64));
    }
    // 1 run in 10 (own random stream): a *burst* - a crawler-style application issues 132..170 lookups on
    // distinct targets within a few milliseconds; every one of them must return
    let mut brng = Rng::new(crate::rng::key(ctx.seed, &[crate::rng::tag("c06-burst")]));
    if !held_stream && brng.chance(1, 10) {
        let n = brng.usize(132, 170);
        let at0 = t_first + brng.range(0, 2000) * MS;
        let spread = brng.range(0, 40) * MS;
        for e in 0..n {
            let at = at0 + if spread == 0 { 0 } else { brng.range(0, spread / MS) * MS };
            last_issue = last_issue.max(at);
            let t = brng.id();
            let kind = brng.below(4);
            let ops = ops.clone();
            sim.at(at, move |sim| {
                let (label, op) = match kind {
                    0 => ("find_node", sim.find_node(caller, t)),
                    1 => ("get_immutable", sim.get_immutable(caller, t)),
                    2 => ("get_peers", sim.get_peers(caller, t)),
                    _ => ("get_closest_nodes", sim.get_closest_nodes(caller, t)),
                };
                ops.borrow_mut().push((2000 + e, label.to_string(), t, op));
            });
        }
        // (hundreds of lookups: a snapshot after every step would dominate the run; the largest request
        // timeout is then sampled from snapshots requested every 250 ms)
        sim.set_snap_mode(SnapMode::OnDemand);
        let mut st = at0;
        while st < at0 + 120 * SEC {
            sim.at(st, move |sim| sim.want_snapshot(caller));
            st += 250 * MS;
        }
        report.probe("burst_runs", 1);
        report.probe("burst_lookups", n as u64);
        plan.push(format!("burst of {n} lookups on distinct targets at t={:.3}s (spread {} ms)", at0 as f64 / SEC as f64, spread / MS));
    }
    // stalls of the caller
    if faulty && rng.chance(1, 3) {
        let at = t_first + rng.range(0, 3000) * MS;
        let d = rng.range(100, 3000) * MS;
        stall_total += d;
        plan.push(format!("stall caller at t={:.3}s for {}ms", at as f64 / SEC as f64, d / MS));
        sim.at(at, move |sim| sim.stall(caller, d));
    }
    // syscall failures on the caller: a burst of failing send_to / recv_from calls
    if faulty && rng.chance(1, 4) {
        let at = t_first + rng.range(0, 3000) * MS;
        let n = rng.range(1, 12) as u32;
        let recv = rng.chance(1, 2);
        plan.push(format!("{} next {n} {} calls of the caller at t={:.3}s", "fail", if recv { "recv_from" } else { "send_to" }, at as f64 / SEC as f64));
        sim.at(at, move |sim| {
            if recv {
                sim.fail_recvs(caller, n)
            } else {
                sim.fail_sends(caller, n)
            }
        });
    }
    // a partition between the caller and some peers, healed later
    if faulty && rng.chance(1, 4) {
        let at = t_first + rng.range(0, 2500) * MS;
        let heal = at + rng.range(200, 6000) * MS;
        let cut: Vec<std::net::Ipv4Addr> = addrs.iter().filter(|_| rng.chance(1, 2)).map(|a| *a.ip()).collect();
        let me = *caller_addr.ip();
        plan.push(format!("partition caller <-> {} peers from t={:.3}s to t={:.3}s", cut.len(), at as f64 / SEC as f64, heal as f64 / SEC as f64));
        let cut2 = cut.clone();
        sim.at(at, move |sim| {
            for ip in &cut {
                sim.block(me, *ip);
                sim.block(*ip, me);
            }
        });
        sim.at(heal, move |sim| {
            for ip in &cut2 {
                sim.unblock(me, *ip);
                sim.unblock(*ip, me);
            }
        });
    }
    sim.run_until(last_issue + MS);

    judge(&sim, &mut report, caller, &ops, last_issue, stall_total, ppm, &tau_max, n_raw + n_real);
    report.nontrivial = !ops.borrow().is_empty();
    report.probe("calls", ops.borrow().len() as u64);
    if force_overlap {
        report.probe("find_node_then_put_same_target", 1);
    }
    if public_caller {
        let rk = rekeys.borrow();
        if !rk.is_empty() {
            report.probe("public_caller_rekeyed", 1);
            // a lookup of the previous id was active on the caller in the step before the re-key
            // (bootstrapped() calls issued before it and completed after it)
            let spanning = ops.borrow().iter().filter(|o| o.1 == "bootstrapped").filter(|o| sim.with_op(o.3, |x| x.issued_at < rk[0].0 && x.done_at.map(|d| d > rk[0].0).unwrap_or(true))).count();
            if spanning > 0 {
                report.probe("bootstrapped_calls_spanning_the_rekey", spanning as u64);
                report.probe("runs_with_a_call_spanning_the_rekey", 1);
            }
        }
        let _ = train;
    }
    if held_stream {
        report.probe("held_stream_runs", 1);
        let held_items = ops.borrow().iter().find(|o| o.0 == 0).and_then(|o| sim.with_op(o.3, |x| match &x.outcome {
            Some(Outcome::Peers(v)) => Some(v.len()),
            Some(Outcome::Mutable(v)) => Some(v.len()),
            Some(Outcome::SignedPeers(v)) => Some(v.len()),
            _ => None,
        }));
        if held_items.unwrap_or(0) >= 17 {
            report.probe("held_stream_with_17_or_more_queued_items", 1);
        }
    }
    let _ = Value::Int(0);
    report.plan_dump = Some(plan.join("\n"));
    report.sample = Some(json!({"plan": plan.iter().take(10).collect::<Vec<_>>()}));
    finish(&sim, report)
}

pub fn property() -> Property {
    Property {
        id: "C06",
        run,
        budget: |t| match t {
            Tier::Quick => 6000,
            Tier::Thorough => 300_000,
        },
        wall_cap_s: |t| match t {
            Tier::Quick => 70.0,
            Tier::Thorough => 1500.0,
        },
        info: || PropInfo {
            floors: vec![],
            rule: "one run = a caller among 2..14 scripted peers with partial knowledge (so lookups iterate) and 0..3 real servers; 1..9 calls of 12 kinds over a pool of 2 targets per kind issued within 3.6 s (overlaps on equal targets are the norm; 1/4 of the runs force find_node(x) followed by put to x); faults: loss up to 35%, duplication up to 30%, delays of 0.4..4 s (beyond the timeout), corruption, peers turning silent / garbage-answering / error-answering at seeded instants, a stall of the caller, clock skew up to +-5%. Horizon per run = (A+2)(tau_max+1 s)+5 s after the last issue (A = addresses contacted + peers, tau_max = largest request timeout the caller reported), scaled by the skew, plus stalls. Non-trivial = at least one call issued; distinct = delivery-order hash".into(),
            assumptions: vec!["a stream may yield at most one item per distinct value-bearing reply delivered for its target plus one per local in-flight put".into()],
        },
    }
}
