//! C07 — iterative lookups are exhaustive (Kademlia closure); also the lookup side of C11.
//! A real node looks targets up in a loss-free network of 2..300 scripted peers with partial
//! knowledge and adversarial id plans. The verdict comes from the lookup's own message trace.

use std::collections::{BTreeMap, BTreeSet};
use std::net::SocketAddrV4;

use serde_json::json;

use crate::krpc::{self, Id, Krpc};
use crate::props::common::*;
use crate::props::{PropInfo, Property, Report, RunCtx, Tier};
use crate::rawnet::*;
use crate::rng::Rng;
use crate::sim::*;

pub struct LookupTrace {
    /// addresses queried, in order, with send time
    pub queried: Vec<(SocketAddrV4, u64)>,
    /// answerers: address -> (id, has token)
    pub answerers: BTreeMap<SocketAddrV4, (Id, bool)>,
    /// everything the lookup was told about: answerers and listed nodes
    pub known: BTreeMap<SocketAddrV4, Id>,
    /// store requests of the following put, if any: (dst, token)
    pub stores: Vec<SocketAddrV4>,
    pub arrival_fp: u64,
    /// every (id, address) pair the lookup was told: answerers and listed entries (an address may appear
    /// under several ids)
    pub told_pairs: BTreeSet<(Id, SocketAddrV4)>,
    /// answers that arrived after 500 ms but while another request of the lookup was certainly pending
    /// (sent less than 450 ms earlier and unanswered) and within the socket's retention (< 2 s): the node
    /// accepts those by design, they count as answers
    pub late_counted: usize,
    /// a late answer arrived before the lookup ended at an instant where the trace cannot tell whether
    /// the lookup was still running: the closure verdicts are not evaluated for this lookup
    pub ambiguous_late: bool,
}

/// Reconstruct one lookup (requests of `kinds` for `target` sent by `host` in [from, to]).
pub fn lookup_trace(sim: &Sim, host: HostId, target: &Id, from: u64, to: u64) -> LookupTrace {
    let me = sim.node_addr(host);
    sim.with_trace(|tr| {
        let mut lt = LookupTrace {
            queried: vec![],
            answerers: BTreeMap::new(),
            known: BTreeMap::new(),
            stores: vec![],
            arrival_fp: 0,
            told_pairs: BTreeSet::new(),
            late_counted: 0,
            ambiguous_late: false,
        };
        let mut reqs: BTreeMap<(SocketAddrV4, u32), u64> = BTreeMap::new();
        for d in tr.iter() {
            if d.t_send < from || d.t_send > to {
                continue;
            }
            let Some(k) = Krpc::parse(&d.bytes) else { continue };
            if d.from_host == Some(host) && d.dup_of.is_none() {
                if let Some(q) = k.query_name() {
                    if k.target() == Some(*target) {
                        if matches!(q, "find_node" | "get" | "get_peers" | "get_signed_peers") {
                            lt.queried.push((d.dst, d.t_send));
                            reqs.insert((d.dst, k.tid_u32().unwrap_or(0)), d.t_send);
                        } else if matches!(q, "put" | "announce_peer" | "announce_signed_peer") {
                            lt.stores.push(d.dst);
                        }
                    }
                }
            }
        }
        let mut answers: Vec<(u64, SocketAddrV4, Krpc)> = vec![];
        // first reply (response or error) delivered per request
        let mut first_reply: BTreeMap<(SocketAddrV4, u32), u64> = BTreeMap::new();
        for d in tr.iter() {
            if d.dst != me || d.fate != Fate::Delivered {
                continue;
            }
            let Some(k) = Krpc::parse(&d.bytes) else { continue };
            if k.is_query() {
                continue;
            }
            let key = (d.src, k.tid_u32().unwrap_or(0));
            if reqs.contains_key(&key) {
                let at = d.t_deliver.unwrap();
                let e = first_reply.entry(key).or_insert(at);
                *e = (*e).min(at);
            }
        }
        for d in tr.iter() {
            if d.dst != me || d.fate != Fate::Delivered {
                continue;
            }
            let Some(k) = Krpc::parse(&d.bytes) else { continue };
            if !k.is_response() {
                continue;
            }
            let key = (d.src, k.tid_u32().unwrap_or(0));
            if let Some(sent) = reqs.get(&key) {
                let at = d.t_deliver.unwrap();
                if at - sent < 500 * MS && at <= to + SEC {
                    answers.push((at, d.src, k));
                } else if at - sent >= 500 * MS && at <= to && first_reply.get(&key) == Some(&at) {
                    // a late answer while the lookup may still be running
                    let surely_active = reqs.iter().any(|(k2, sent2)| *k2 != key && *sent2 <= at && at - *sent2 <= 450 * MS && first_reply.get(k2).map(|t| *t > at).unwrap_or(true));
                    if surely_active && at - sent < 2 * SEC {
                        lt.late_counted += 1;
                        answers.push((at, d.src, k));
                    } else {
                        lt.ambiguous_late = true;
                    }
                }
            }
        }
        answers.sort_by_key(|a| a.0);
        for (_, src, k) in &answers {
            if let Some(id) = k.id() {
                lt.answerers.insert(*src, (id, k.token().is_some()));
                lt.known.insert(*src, id);
                lt.told_pairs.insert((id, *src));
                lt.arrival_fp = crate::rng::key(lt.arrival_fp, &[u32::from(*src.ip()) as u64, src.port() as u64]);
            }
            if let Some(nodes) = k.nodes() {
                for (id, a) in nodes {
                    lt.known.entry(a).or_insert(id);
                    lt.told_pairs.insert((id, a));
                }
            }
        }
        lt
    })
}

/// The harness's order: BEP42-secure first, then XOR distance to the target.
pub fn sorted(target: &Id, nodes: impl Iterator<Item = (Id, SocketAddrV4)>) -> Vec<(Id, SocketAddrV4)> {
    let mut v: Vec<(Id, SocketAddrV4)> = nodes.collect();
    sort_closest(target, &mut v);
    v
}

/// Closure / order / replica verdicts of one finished lookup, from its own trace.
#[allow(clippy::too_many_arguments)]
fn verdicts(ctx: &RunCtx, sim: &Sim, report: &mut Report, node: HostId, op: OpId, kind: u64, lookup_target: &Id, t0: u64, t1: u64, done: bool, what0: &str, closure: bool) -> LookupTrace {
    let lt = lookup_trace(sim, node, lookup_target, t0, t1);
    let what = format!("{what0} queried={} answerers={} known={} late-counted={}", lt.queried.len(), lt.answerers.len(), lt.known.len(), lt.late_counted);

    // (b) no address is queried twice by one lookup
    let mut seen = BTreeSet::new();
    for (a, _) in &lt.queried {
        if !seen.insert(*a) {
            if ctx.verbose {
                sim.with_trace(|tr| {
                    for d in tr.iter().filter(|d| d.dst == *a || d.src == *a) {
                        println!("  {}", trace_line(d));
                    }
                });
            }
            report.violate("closure", "address-queried-twice", format!("{a} was sent two requests by one lookup; {what}"));
        }
    }
    if lt.ambiguous_late {
        report.probe("lookups_with_an_ambiguous_late_answer_not_judged", 1);
        return lt;
    }
    if lt.late_counted > 0 {
        report.probe("lookups_with_a_late_answer_that_counts", 1);
    }
    // (a) every one of the 20 best of K has been queried
    let best: Vec<(Id, SocketAddrV4)> = sorted(lookup_target, lt.known.iter().map(|(a, id)| (*id, *a))).into_iter().take(20).collect();
    let me = sim.node_addr(node);
    for (rank, (id, a)) in best.iter().enumerate() {
        if !closure {
            break;
        }
        if !seen.contains(a) && *a != me {
            report.violate(
                "closure",
                "closer-known-node-not-queried",
                format!("{a} (id {}, rank {rank} of the {} entries the lookup was told about) was never queried; {what}", hex8(id), lt.known.len()),
            );
            break;
        }
    }
    // (c) reported nodes
    if report.violation.is_none() {
        if let Some(Outcome::Nodes(nodes)) = sim.take_outcome(op) {
            let got: Vec<(Id, SocketAddrV4)> = nodes.iter().map(|x| (*x.id().as_bytes(), x.address())).collect();
            let mut expect_sorted = got.clone();
            sort_closest(lookup_target, &mut expect_sorted);
            if got != expect_sorted {
                report.violate("order", "reported-nodes-not-sorted", format!("the reported nodes are not in secure-first / XOR order; {what}"));
            } else if kind == 0 {
                // find_node: exactly the closest of everything known (answerers need not be listed ones)
                let known_plus: Vec<(Id, SocketAddrV4)> = lt.known.iter().map(|(a, id)| (*id, *a)).filter(|x| x.1 != me).collect();
                let best_listed = sorted(lookup_target, known_plus.into_iter());
                if let Some(last) = got.last() {
                    for cand in best_listed.iter().take(20) {
                        let closer = {
                            let mut pair = vec![*cand, *last];
                            sort_closest(lookup_target, &mut pair);
                            pair[0] == *cand && cand != last
                        };
                        // only nodes that were *listed* are candidates of the accumulator
                        if closer && !got.contains(cand) && got.len() >= 20 {
                            if ctx.verbose {
                                println!("target {} got:", crate::krpc::hex(lookup_target));
                                for g in &got {
                                    println!("  {} {} secure={}", crate::krpc::hex(&g.0), g.1, crate::krpc::bep42_secure(&g.0, *g.1.ip()));
                                }
                                println!("best listed:");
                                for g in best_listed.iter().take(25) {
                                    println!("  {} {} secure={}", crate::krpc::hex(&g.0), g.1, crate::krpc::bep42_secure(&g.0, *g.1.ip()));
                                }
                            }
                            report.violate("order", "reported-nodes-miss-a-closer-node", format!("find_node reported 20 nodes but {} (id {}) is closer than its last entry; {what}", cand.1, hex8(&cand.0)));
                            break;
                        }
                    }
                }
                if got.len() < 20.min(best_listed.len().saturating_sub(1)) && lt.answerers.len() >= 20 {
                    report.violate("order", "reported-nodes-too-few", format!("find_node reported {} nodes although {} are known; {what}", got.len(), best_listed.len()));
                }
            } else {
                // get_closest_nodes: a prefix of the sorted token-bearing answerers, length >= min(20, available)
                let responders = sorted(lookup_target, lt.answerers.iter().filter(|(_, v)| v.1).map(|(a, v)| (v.0, *a)));
                let want = 20.min(responders.len());
                if got.len() < want || got[..] != responders[..got.len().min(responders.len())] {
                    report.violate("order", "closest-responders-not-a-prefix", format!("get_closest_nodes returned {} nodes, expected a prefix (>= {want}) of the {} sorted token-bearing answerers; {what}", got.len(), responders.len()));
                }
            }
        }
    }
    // (d) writes go to a prefix of the sorted token-bearing answerers
    if report.violation.is_none() && kind >= 3 && done {
        let responders = sorted(lookup_target, lt.answerers.iter().filter(|(_, v)| v.1).map(|(a, v)| (v.0, *a)));
        let want = 20.min(responders.len());
        let dests: BTreeSet<SocketAddrV4> = lt.stores.iter().copied().collect();
        if dests.len() < want {
            report.violate("replicas", "too-few-store-requests", format!("the write went to {} nodes although {} token-bearing answerers exist; {what}", dests.len(), responders.len()));
        } else {
            let prefix: BTreeSet<SocketAddrV4> = responders.iter().take(dests.len()).map(|x| x.1).collect();
            if prefix != dests {
                let wrong: Vec<_> = dests.difference(&prefix).collect();
                report.violate("replicas", "store-requests-not-the-closest-responders", format!("the write went to {wrong:?} which are not among the {} closest token-bearing answerers; {what}", dests.len()));
            }
        }
        report.probe("write_lookups", 1);
    }
    lt
}

/// Late-answer family: a small network (everything is among the 20 closest) in which a chain of relays,
/// each listing the next relay and a dead contact, keeps the lookup running round after round while one
/// or two *late* peers answer only after 0.52..1.4 s - later than the request timeout, but while younger
/// requests are certainly pending and within the socket's retention. The node accepts such answers by
/// design; the nodes they list (hidden peers, closest of all, known to nobody else) are then part of what
/// the lookup "was told" and fall under the closure, order and replica verdicts like any other.
fn run_late(ctx: &RunCtx) -> Report {
    let mut report = Report::default();
    let mut rng = Rng::new(ctx.seed);
    let net = NetCfg {
        latency_min_us: 500,
        latency_max_us: rng.range(2_000, 90_000),
        ..NetCfg::default()
    };
    let sim = Sim::new(ctx.seed, net);
    sim.set_snap_mode(SnapMode::Off);
    let public = rng.chance(1, 2);
    let target: Id = rng.id();
    let rawnet = RawNet::new();
    let mut ips = BTreeSet::new();
    let mut next_ip = |rng: &mut Rng, i: usize| loop {
        let ip = if public { pub_ip(rng) } else { priv_ip(100 + i) };
        if ips.insert(ip) {
            break ip;
        }
    };
    let mut used_ids: BTreeSet<Id> = BTreeSet::new();
    let mut fresh_id = |rng: &mut Rng, ip: std::net::Ipv4Addr, close: usize| loop {
        let mut id = rng.id();
        id[..close].copy_from_slice(&target[..close]);
        if close > 0 && close < 20 {
            id[close] = target[close] ^ (1 << rng.below(8));
        }
        if public && rng.chance(1, 2) {
            id = krpc::bep42_id(ip, id);
        }
        if used_ids.insert(id) {
            break id;
        }
    };
    let m = rng.usize(3, 8); // relays
    let n_late = rng.usize(1, 2);
    let n_hidden = rng.usize(1, 3);
    let n_noise = rng.usize(0, 16usize.saturating_sub(2 * m + n_late + n_hidden));
    let mut idx = 0usize;
    let mut relays = vec![];
    for _ in 0..m {
        let ip = next_ip(&mut rng, idx);
        let mut p = Peer::new(fresh_id(&mut rng, ip, 0), SocketAddrV4::new(ip, 6881));
        p.k = 20;
        p.delay = rng.range(40, 120) * MS;
        relays.push(rawnet.add(&sim, p));
        idx += 1;
    }
    let mut lates = vec![];
    for _ in 0..n_late {
        let ip = next_ip(&mut rng, idx);
        let mut p = Peer::new(fresh_id(&mut rng, ip, 0), SocketAddrV4::new(ip, 6882));
        p.k = 20;
        p.delay = rng.range(520, 1400) * MS;
        lates.push(rawnet.add(&sim, p));
        idx += 1;
    }
    let mut hidden = vec![];
    for _ in 0..n_hidden {
        let ip = next_ip(&mut rng, idx);
        // closest of all to the target (as far as the BEP42 prefix allows on public plans)
        let close = rng.usize(6, 18);
        let mut p = Peer::new(fresh_id(&mut rng, ip, close), SocketAddrV4::new(ip, 6883));
        p.k = 20;
        p.delay = rng.range(0, 100) * MS;
        hidden.push(rawnet.add(&sim, p));
        idx += 1;
    }
    let mut noise = vec![];
    for _ in 0..n_noise {
        let ip = next_ip(&mut rng, idx);
        let mut p = Peer::new(fresh_id(&mut rng, ip, 0), SocketAddrV4::new(ip, 6884));
        p.k = 20;
        p.delay = rng.range(0, 120) * MS;
        noise.push(rawnet.add(&sim, p));
        idx += 1;
    }
    // knowledge: relay i -> relay i+1, one dead contact, some noise; the first relays list the late peers;
    // only late peers know the hidden ones
    for (i, r) in relays.iter().enumerate() {
        let mut knows = vec![];
        if i + 1 < m {
            knows.push(relays[i + 1]);
        }
        for l in &lates {
            if i == 0 || rng.chance(1, 4) {
                knows.push(*l);
            }
        }
        for x in &noise {
            if rng.chance(1, 3) {
                knows.push(*x);
            }
        }
        rng.shuffle(&mut knows);
        let dead_ip = next_ip(&mut rng, idx);
        idx += 1;
        let dead = (fresh_id(&mut rng, dead_ip, 0), SocketAddrV4::new(dead_ip, 6885));
        rawnet.with_peer(*r, |p| {
            p.knows = knows;
            p.extra_nodes.push(dead);
        });
    }
    for l in &lates {
        let mut knows = hidden.clone();
        if rng.chance(1, 2) {
            knows.push(relays[rng.usize(0, m - 1)]);
        }
        rawnet.with_peer(*l, |p| p.knows = knows);
    }
    for h in hidden.iter().chain(noise.iter()) {
        let mut knows = vec![];
        for x in &noise {
            if x != h && rng.chance(1, 3) {
                knows.push(*x);
            }
        }
        rawnet.with_peer(*h, |p| p.knows = knows);
    }
    let mut spec = NodeSpec::new(if public { pub_ip(&mut rng) } else { priv_ip(1) }, 6881);
    spec.server_mode = rng.chance(1, 4);
    spec.bootstrap = vec![rawnet.contact(relays[0]).1.to_string()];
    if rng.chance(1, 3) {
        spec.bootstrap.push(rawnet.contact(lates[0]).1.to_string());
    }
    let node = sim.add_node(spec);
    // the node's own bootstrap lookup runs into the same late peers; wait it out (or not: cold start)
    let warm = rng.chance(2, 3);
    sim.run_for(if warm { rng.range(6, 30) * SEC } else { 0 });

    let kind = rng.below(5);
    let value = rng.bytes(16);
    let lookup_target: Id = match kind {
        3 => krpc::immutable_target(&value),
        _ => target,
    };
    let t0 = sim.now();
    let op = match kind {
        0 => sim.find_node(node, lookup_target),
        1 => sim.get_closest_nodes(node, lookup_target),
        2 => sim.get_peers(node, lookup_target),
        3 => sim.put_immutable(node, value.clone()),
        _ => sim.announce_peer(node, lookup_target, Some(1)),
    };
    let done = sim.run_ops(&[op], sim.now() + 300 * SEC);
    let t1 = sim.with_op(op, |o| o.done_at).unwrap_or(sim.now());
    sim.run_for(SEC);
    if !done {
        report.violate("hang", "lookup-did-not-finish", format!("lookup kind {kind} in the late-answer network did not finish in 300 s"));
    }
    if let Some(d) = sim.died(node) {
        report.violate("node-died", "node-actor-panicked", format!("node died: {d}"));
    }
    let what = format!("late-answer family: kind={kind} relays={m} late={n_late} hidden={n_hidden} noise={n_noise} public={public} warm={warm}");
    let lt = verdicts(ctx, &sim, &mut report, node, op, kind, &lookup_target, t0, t1, done, &what, true);
    report.nontrivial = lt.late_counted > 0;
    report.probe("late_answer_family_runs", 1);
    if lt.late_counted > 0 {
        let hidden_addrs: Vec<SocketAddrV4> = hidden.iter().map(|h| rawnet.contact(*h).1).collect();
        if hidden_addrs.iter().any(|a| lt.known.contains_key(a)) {
            report.probe("late_answer_listed_nodes_nobody_else_knows", 1);
        }
    }
    report.fingerprint = crate::rng::key(lt.arrival_fp, &[kind, 777]);
    let what = format!("{what} queried={} answerers={} known={} late-counted={} ambiguous={}", lt.queried.len(), lt.answerers.len(), lt.known.len(), lt.late_counted, lt.ambiguous_late);
    report.sample = Some(json!({"scenario": what}));
    report.plan_dump = Some(what);
    finish(&sim, report)
}

fn run(ctx: &RunCtx) -> Report {
    if ctx.index % 6 == 5 {
        return run_late(ctx);
    }
    let mut report = Report::default();
    let mut rng = Rng::new(ctx.seed);
    let net = NetCfg {
        latency_min_us: 500,
        // one-way latency at most 185 ms: with peers answering after at most 120 ms every round trip
        // stays below the 500 ms minimum request timeout, so the trace decides exactly which answers
        // the lookup counted (with 200 ms a reply could take 520 ms and be counted or not depending on
        // the adaptive timeout - a thorough-tier false alarm of an earlier version)
        latency_max_us: rng.range(2_000, 185_000),
        ..NetCfg::default()
    };
    // 1 run in 8 (own random stream): a *busy socket* - the node runs five to seven other lookups at the same time
    // in a network of 100..300 peers most of which take 150..400 ms to answer (links faster than 20 ms, so every
    // round trip still stays below the request timeout): dozens of requests of other lookups are outstanding on
    // the shared socket whenever an answer of the judged lookup arrives
    let mut brng = Rng::new(crate::rng::key(ctx.seed, &[crate::rng::tag("c07-busy-socket")]));
    let busy = brng.chance(1, 8);
    let net = if busy { NetCfg { latency_max_us: brng.range(2_000, 20_000), ..net } } else { net };
    let sim = Sim::new(ctx.seed, net);
    sim.set_snap_mode(SnapMode::Off);
    let public = rng.chance(1, 2);
    let size_class = rng.below(match ctx.tier {
        Tier::Quick => 20,
        Tier::Thorough => 12,
    });
    let n = match size_class {
        0 => rng.usize(100, 300),
        1 | 2 => rng.usize(30, 100),
        _ => rng.usize(2, 30),
    };
    let n = if busy { brng.usize(100, 300) } else { n };
    let target: Id = rng.id();
    let plan = rng.below(4); // 0 random ids, 1 cluster around the target, 2 near-ties, 3 mostly far + few close
    let rawnet = RawNet::new();
    let mut ips = BTreeSet::new();
    let mut used_ids: BTreeSet<Id> = BTreeSet::new();
    for i in 0..n {
        // unique IP per peer (per-IP rules are C12's subject)
        let ip = loop {
            let ip = if public { pub_ip(&mut rng) } else { priv_ip(100 + i) };
            if ips.insert(ip) {
                break ip;
            }
        };
        let addr = SocketAddrV4::new(ip, 6881 + (i % 7) as u16);
        let mut id = rng.id();
        let mut attempts = 0;
        loop {
        attempts += 1;
        id = if attempts > 1 { rng.id() } else { id };
        match plan {
            1 => {
                let keep = rng.usize(1, 19);
                id[..keep].copy_from_slice(&target[..keep]);
            }
            2 => {
                // ids that differ from each other only late: near-ties on the first differing byte
                id[..18].copy_from_slice(&target[..18]);
                id[18] = target[18] ^ (1 << rng.below(3));
            }
            3 => {
                if rng.chance(1, 10) {
                    id[..12].copy_from_slice(&target[..12]);
                }
            }
            _ => {}
        }
        if public && rng.chance(1, 2) {
            // secure ids keep their BEP42 prefix: closeness then comes from the remaining bits
            id = krpc::bep42_id(ip, id);
        }
        // two peers claiming one id are a different (Sybil) scenario: keep ids unique here
        if used_ids.insert(id) || attempts > 50 {
            break;
        }
        }
        let mut p = Peer::new(id, addr);
        p.k = *rng.pick(&[8usize, 8, 20, 3]);
        p.delay = rng.range(0, 120) * MS;
        if busy && brng.chance(3, 4) {
            p.delay = brng.range(150, 400) * MS;
        }
        if rng.chance(1, 10) {
            p.version = Some(b"LT\x01\x02".to_vec());
        }
        rawnet.add(&sim, p);
    }
    // knowledge: a few nearest neighbours (so that lookups can converge) plus random contacts
    let all: Vec<(Id, usize)> = (0..n).map(|i| (rawnet.contact(i).0, i)).collect();
    for i in 0..n {
        let me = all[i].0;
        let mut by_dist: Vec<(Id, usize)> = all.iter().filter(|x| x.1 != i).cloned().collect();
        by_dist.sort_by_key(|x| krpc::xor(&x.0, &me));
        let near = rng.usize(0, 8.min(by_dist.len()));
        let mut knows: Vec<usize> = by_dist.iter().take(near).map(|x| x.1).collect();
        for _ in 0..rng.usize(0, 12) {
            if n > 1 {
                let j = rng.usize(0, n - 1);
                if j != i && !knows.contains(&j) {
                    knows.push(j);
                }
            }
        }
        // answers list nodes in arbitrary order (insertion order into the accumulator varies)
        rng.shuffle(&mut knows);
        rawnet.with_peer(i, |p| p.knows = knows);
    }
    // the real node
    let mut spec = NodeSpec::new(if public { pub_ip(&mut rng) } else { priv_ip(1) }, 6881);
    spec.server_mode = rng.chance(1, 4);
    let nboot = rng.usize(1, 3.min(n));
    spec.bootstrap = (0..nboot).map(|i| rawnet.contact(i).1.to_string()).collect();
    let node = sim.add_node(spec);
    // warm or cold table
    let warm = rng.chance(1, 2);
    sim.run_for(if warm { rng.range(3, 20) * SEC } else { 0 });
    if warm {
        for _ in 0..rng.usize(0, 3) {
            let o = sim.find_node(node, rng.id());
            sim.run_ops(&[o], sim.now() + 60 * SEC);
        }
    }

    let kind = rng.below(5);
    let value = rng.bytes(16);
    let lookup_target: Id = match kind {
        3 => krpc::immutable_target(&value),
        _ => target,
    };
    // some peers already hold data for the target: their answers carry values AND closer nodes
    if rng.chance(2, 3) {
        for i in 0..n {
            if rng.chance(1, 3) {
                let v = value.clone();
                rawnet.with_peer(i, |p| {
                    p.peers.insert(lookup_target, vec![SocketAddrV4::new(priv_ip(50_000 + i), 1)]);
                    if kind == 3 {
                        p.immutable.insert(lookup_target, v);
                    }
                });
            }
        }
        report.probe("lookups_with_value_holders", 1);
    }
    if busy {
        for _ in 0..brng.usize(5, 7) {
            let t = brng.id();
            let _ = match brng.below(3) {
                0 => sim.find_node(node, t),
                1 => sim.get_peers(node, t),
                _ => sim.get_closest_nodes(node, t),
            };
        }
        sim.run_for(brng.range(0, 250) * MS);
        report.probe("busy_socket_runs", 1);
    }
    let t0 = sim.now();
    let op = match kind {
        0 => sim.find_node(node, lookup_target),
        1 => sim.get_closest_nodes(node, lookup_target),
        2 => sim.get_peers(node, lookup_target),
        3 => sim.put_immutable(node, value.clone()),
        _ => sim.announce_peer(node, lookup_target, Some(1)),
    };
    let done = sim.run_ops(&[op], sim.now() + 300 * SEC);
    let t1 = sim.with_op(op, |o| o.done_at).unwrap_or(sim.now());
    sim.run_for(SEC);
    if !done {
        report.violate("hang", "lookup-did-not-finish", format!("lookup kind {kind} in a loss-free network of {n} peers did not finish in 300 s"));
    }
    if let Some(d) = sim.died(node) {
        report.violate("node-died", "node-actor-panicked", format!("node died: {d}"));
    }
    let what = format!("kind={kind} peers={n} id-plan={plan} public={public} warm={warm}");
    let lt = verdicts(ctx, &sim, &mut report, node, op, kind, &lookup_target, t0, t1, done, &what, true);
    let what = format!("{what} queried={} answerers={} known={}", lt.queried.len(), lt.answerers.len(), lt.known.len());
    // 1 token lookup in 3 (own random stream): *the same lookup again* within the five minutes its result is
    // cached, after one to three of its answerers have died. The second lookup is a lookup of its own: what
    // it reports are the nodes that answered IT (a dead node answers nothing), and every address is asked once.
    let mut rrng = Rng::new(crate::rng::key(ctx.seed, &[crate::rng::tag("c07-repeat")]));
    if report.violation.is_none() && (kind == 1 || kind == 2) && !lt.ambiguous_late && lt.answerers.len() >= 2 && rrng.chance(1, 3) {
        let mut victims: Vec<SocketAddrV4> = lt.answerers.keys().copied().collect();
        rrng.shuffle(&mut victims);
        victims.truncate(rrng.usize(1, 3.min(victims.len() - 1)));
        for i in 0..n {
            if victims.contains(&rawnet.contact(i).1) {
                rawnet.with_peer(i, |p| p.silent = true);
            }
        }
        sim.run_for(rrng.range(1, 240) * SEC);
        let t0b = sim.now();
        let op2 = if kind == 1 { sim.get_closest_nodes(node, lookup_target) } else { sim.get_peers(node, lookup_target) };
        let done2 = sim.run_ops(&[op2], sim.now() + 300 * SEC);
        let t1b = sim.with_op(op2, |o| o.done_at).unwrap_or(sim.now());
        sim.run_for(SEC);
        if !done2 {
            report.violate("hang", "lookup-did-not-finish", format!("the repeated lookup kind {kind} did not finish in 300 s"));
        }
        let what2 = format!("REPEATED after {} answerer(s) died: {what}", victims.len());
        // (the closure rule is not applied: dead table members the lookup was seeded with, which nobody lists any
        // more, keep their rank among its candidates - outside the all-peers-alive setting of that rule)
        let lt2 = verdicts(ctx, &sim, &mut report, node, op2, kind, &lookup_target, t0b, t1b, done2, &what2, false);
        // the dead were asked (they are cached candidates) and did not answer
        if victims.iter().any(|v| lt2.queried.iter().any(|q| q.0 == *v)) {
            report.probe("repeated_lookups_that_asked_a_dead_cached_node", 1);
        }
        report.probe("repeated_lookups", 1);
    }
    report.nontrivial = lt.known.len() > 20 || lt.queried.len() > 3;
    report.probe("peers", n as u64);
    report.probe("requests_sent", lt.queried.len() as u64);
    if lt.known.len() > 20 {
        report.probe("lookups_with_more_than_20_known", 1);
    }
    if n >= 100 {
        report.probe("large_networks", 1);
    }
    report.fingerprint = crate::rng::key(lt.arrival_fp, &[kind, n as u64]);
    report.sample = Some(json!({"scenario": what}));
    report.plan_dump = Some(what);
    finish(&sim, report)
}

pub fn property() -> Property {
    Property {
        id: "C07",
        run,
        budget: |t| match t {
            Tier::Quick => 10000,
            Tier::Thorough => 200_000,
        },
        wall_cap_s: |t| match t {
            Tier::Quick => 70.0,
            Tier::Thorough => 1500.0,
        },
        info: || PropInfo {
            floors: vec![],
            rule: "one run = a real node in a loss-free network of 2..300 scripted peers (unique IPs, private or public plan with secure/insecure mixes; id plans: random, clustered around the target, near-ties, few-close), each peer knowing 0..8 nearest neighbours plus 0..12 random contacts and answering with its k in {3,8,20} closest in shuffled order, response delays 0..120 ms; warm or cold routing table; one lookup of kind find_node / get_closest_nodes / get_peers / put_immutable / announce_peer. The verdict is computed from the lookup's own requests and the answers delivered in time. Non-trivial = more than 20 entries known or more than 3 requests; distinct = hash of the answer arrival order".into(),
            assumptions: vec!["all peers alive and loss-free, so routing-table seeds are answerers".into(), "unique IP per peer (per-IP limits are C12's subject)".into()],
        },
    }
}
