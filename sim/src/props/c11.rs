//! C11 — servers answer with the closest nodes they know (wire monitor), and the lookup-side
//! accumulator keeps that order for every insertion sequence (delegated to the C07 scenario).

use std::cell::RefCell;
use std::collections::BTreeMap;
use std::net::SocketAddrV4;
use std::rc::Rc;

use dht::verif::{Snapshot, TableSnap};
use serde_json::json;

use crate::krpc::{self, Id, Krpc, MsgOpts};
use crate::props::common::*;
use crate::props::{PropInfo, Property, Report, RunCtx, Tier};
use crate::rawnet::*;
use crate::rng::Rng;
use crate::sim::*;

pub fn table_nodes(t: &TableSnap) -> Vec<(Id, SocketAddrV4)> {
    t.buckets.iter().flat_map(|(_, b)| b.iter().map(|n| (n.id, n.address))).collect()
}

/// What a server must put into `nodes` for `target`, from its table snapshot.
pub fn expected_nodes(snap: &Snapshot, q: &str, target: &Id) -> Vec<(Id, SocketAddrV4)> {
    let mut main = table_nodes(&snap.routing_table);
    sort_closest(target, &mut main);
    main.truncate(20);
    let mut signed = table_nodes(&snap.signed_peers_routing_table);
    sort_closest(target, &mut signed);
    signed.truncate(20);
    match q {
        "get_signed_peers" => signed,
        "find_node" => {
            // signed-peers table's closest first, then the main table's closest, up to 20
            let mut out = signed;
            let room = 20usize.saturating_sub(out.len());
            out.extend(main.into_iter().take(room));
            out
        }
        _ => main,
    }
}

/// Monitor over a finished run: every read reply of the given real servers is compared with
/// the table snapshot taken right after the step that produced it.
pub fn check_server_replies(sim: &Sim, servers: &[HostId], snaps: &BTreeMap<(HostId, u64), Rc<Snapshot>>, report: &mut Report) {
    let mut checked = 0u64;
    let mut with_stale = 0u64;
    let mut with_big_value = 0u64;
    let findings: Vec<(String, String)> = sim.with_trace(|tr| {
        let mut out = vec![];
        for h in servers {
            let mut consumed: Vec<&Dgram> = tr.iter().filter(|d| d.to_host == Some(*h) && d.consumed.is_some()).collect();
            consumed.sort_by_key(|d| d.consumed.unwrap());
            // replies in send order, per (dst, tid)
            let mut replies: BTreeMap<(SocketAddrV4, u32), Vec<Krpc>> = BTreeMap::new();
            for d in tr.iter().filter(|d| d.from_host == Some(*h) && d.dup_of.is_none()) {
                if let Some(k) = Krpc::parse(&d.bytes) {
                    if k.is_response() {
                        replies.entry((d.dst, k.tid_u32().unwrap_or(0))).or_default().push(k);
                    }
                }
            }
            for (n, d) in consumed.iter().enumerate() {
                let Some(req) = Krpc::parse(&d.bytes) else { continue };
                let Some(q) = req.query_name() else { continue };
                if !matches!(q, "find_node" | "get" | "get_peers" | "get_signed_peers") {
                    continue;
                }
                let Some(target) = req.target() else { continue };
                let Some(list) = replies.get_mut(&(d.src, req.tid_u32().unwrap_or(0))) else { continue };
                if list.is_empty() {
                    continue;
                }
                let reply = list.remove(0);
                let Some(snap) = snaps.get(&(*h, n as u64 + 1)) else { continue };
                let got = reply.nodes().unwrap_or_default();
                let want = expected_nodes(snap, q, &target);
                checked += 1;
                if reply.bytes_field("v").map(|v| v.len() >= 780).unwrap_or(false) {
                    with_big_value += 1;
                }
                if [&snap.routing_table, &snap.signed_peers_routing_table].iter().any(|t| t.buckets.iter().any(|(_, b)| b.iter().any(|n| n.age_ns > 15 * 60 * SEC))) {
                    with_stale += 1;
                }
                if got.len() > 20 {
                    out.push(("more-than-20-nodes".to_string(), format!("{q} reply of {} lists {} nodes", sim.node_addr(*h), got.len())));
                } else if got != want {
                    let members = table_nodes(&snap.routing_table).len() + table_nodes(&snap.signed_peers_routing_table).len();
                    let same_set = {
                        let mut a = got.clone();
                        let mut b = want.clone();
                        a.sort();
                        b.sort();
                        a == b
                    };
                    let key = if same_set { "closest-nodes-wrong-order" } else { "closest-nodes-wrong-set" };
                    out.push((
                        key.to_string(),
                        format!(
                            "{q}({}) reply of server {} lists {} nodes [{}...] but the {} closest (secure first, then XOR) of its {members} table entries are [{}...]",
                            hex8(&target),
                            sim.node_addr(*h),
                            got.len(),
                            got.iter().take(4).map(|x| hex8(&x.0)).collect::<Vec<_>>().join(","),
                            want.len(),
                            want.iter().take(4).map(|x| hex8(&x.0)).collect::<Vec<_>>().join(",")
                        ),
                    ));
                }
            }
        }
        out
    });
    report.probe("server_replies_checked", checked);
    report.probe("server_replies_checked_while_the_table_held_stale_members", with_stale);
    report.probe("server_replies_checked_carrying_a_value_of_780_bytes_or_more", with_big_value);
    if let Some((key, detail)) = findings.into_iter().next() {
        report.violate("closest", &key, detail);
    }
}

/// Install an observer that stores every snapshot by (host, consumed count).
pub fn snapshot_recorder(sim: &Sim) -> Rc<RefCell<BTreeMap<(HostId, u64), Rc<Snapshot>>>> {
    let snaps: Rc<RefCell<BTreeMap<(HostId, u64), Rc<Snapshot>>>> = Default::default();
    let s2 = snaps.clone();
    let sim2 = sim.clone();
    sim.set_snap_mode(SnapMode::OnConsume);
    sim.set_observer(Box::new(move |host, _now, snap| {
        let c = sim2.consumed(host);
        s2.borrow_mut().entry((host, c)).or_insert_with(|| Rc::new(snap.clone()));
    }));
    snaps
}

/// Lookup-side accumulator under *Sybil listings*: answers list a known id a second time under another
/// address for which its BEP42 class differs (and ids whose class is the other way round). The clean
/// accumulator keeps both entries, each in its own block; the reported list must stay sorted
/// secure-first / XOR, free of duplicates, and complete up to same-id-same-class twins.
fn run_sybil_listings(ctx: &RunCtx) -> Report {
    let mut report = Report::default();
    let mut rng = Rng::new(ctx.seed ^ 0x5b11);
    let net = NetCfg {
        latency_min_us: 500,
        latency_max_us: rng.range(2_000, 80_000),
        ..NetCfg::default()
    };
    let sim = Sim::new(ctx.seed, net);
    sim.set_snap_mode(SnapMode::Off);
    let rawnet = RawNet::new();
    let n = rng.usize(4, 45);
    let target: Id = rng.id();
    let mut used = std::collections::BTreeSet::new();
    let mut fresh_ip = |rng: &mut Rng| loop {
        let ip = pub_ip(rng);
        if used.insert(ip) {
            return ip;
        }
    };
    // ghosts: (id, address nobody lives at)
    let mut ghosts: Vec<(Id, SocketAddrV4)> = vec![];
    for i in 0..n {
        let ip = fresh_ip(&mut rng);
        let addr = SocketAddrV4::new(ip, 6881 + (i % 5) as u16);
        let mut id = rng.id();
        if rng.chance(1, 2) {
            let keep = rng.usize(1, 18);
            id[..keep].copy_from_slice(&target[..keep]);
        }
        match rng.below(4) {
            // secure at its own address; a ghost listing under another IP is insecure there
            0 | 1 => {
                id = krpc::bep42_id(ip, id);
                if rng.chance(1, 2) {
                    ghosts.push((id, SocketAddrV4::new(fresh_ip(&mut rng), 6881)));
                }
            }
            // insecure at its own address, but the id is BEP42-valid for the ghost's IP
            2 => {
                let gip = fresh_ip(&mut rng);
                id = krpc::bep42_id(gip, id);
                ghosts.push((id, SocketAddrV4::new(gip, 6881)));
            }
            // plain insecure id; its ghost twin is insecure too (same class: one of the two is kept)
            _ => {
                if rng.chance(1, 3) {
                    ghosts.push((id, SocketAddrV4::new(fresh_ip(&mut rng), 6881)));
                }
            }
        }
        let mut p = Peer::new(id, addr);
        p.k = 20;
        p.delay = rng.range(0, 100) * MS;
        rawnet.add(&sim, p);
    }
    // *stale aliases* (1 run in 2, own random stream): some live peers are also listed, by others, under an id they
    // no longer have (a node that restarted or re-keyed on its address): the lookup hears (old id, address)
    // and then gets the answer from that address under the current id
    let mut arng = Rng::new(crate::rng::key(ctx.seed, &[crate::rng::tag("c11-aliases")]));
    let mut aliases: Vec<(Id, SocketAddrV4)> = vec![];
    if arng.chance(1, 2) {
        for i in 0..n {
            if arng.chance(1, 4) {
                let (_, addr) = rawnet.contact(i);
                let mut old = arng.id();
                if arng.chance(1, 2) {
                    let keep = arng.usize(1, 18);
                    old[..keep].copy_from_slice(&target[..keep]);
                }
                if arng.chance(1, 3) {
                    old = krpc::bep42_id(*addr.ip(), old);
                }
                aliases.push((old, addr));
            }
        }
        report.probe("stale_alias_listings", aliases.len() as u64);
    }
    for i in 0..n {
        let mut knows: Vec<usize> = (0..n).filter(|x| *x != i).collect();
        rng.shuffle(&mut knows);
        knows.truncate(rng.usize(1, n.min(14)));
        let mut extra: Vec<(Id, SocketAddrV4)> = ghosts.iter().filter(|_| rng.chance(1, 3)).cloned().collect();
        let my_addr = rawnet.contact(i).1;
        extra.extend(aliases.iter().filter(|a| a.1 != my_addr).filter(|_| arng.chance(1, 2)).cloned());
        rng.shuffle(&mut extra);
        rawnet.with_peer(i, |p| {
            p.knows = knows;
            p.extra_nodes = extra;
        });
    }
    let mut spec = NodeSpec::new(fresh_ip(&mut rng), 6881);
    spec.server_mode = rng.chance(1, 4);
    spec.bootstrap = (0..rng.usize(1, 3.min(n))).map(|i| rawnet.contact(i).1.to_string()).collect();
    let node = sim.add_node(spec);
    let warm = rng.chance(1, 2);
    sim.run_for(if warm { rng.range(3, 20) * SEC } else { 0 });
    let t0 = sim.now();
    let op = sim.find_node(node, target);
    let done = sim.run_ops(&[op], sim.now() + 300 * SEC);
    let t1 = sim.with_op(op, |o| o.done_at).unwrap_or(sim.now());
    sim.run_for(SEC);
    if !done {
        report.violate("hang", "lookup-did-not-finish", "find_node with ghost listings did not finish in 300 s".into());
    }
    if let Some(d) = sim.died(node) {
        report.violate("node-died", "node-actor-panicked", format!("node died: {d}"));
    }
    let me = sim.node_addr(node);
    // everything the lookup was told, as (id, address) pairs: answerers and listed entries of in-time answers
    let lt = crate::props::c07::lookup_trace(&sim, node, &target, t0, t1);
    // (answers are attributed to this lookup by (address, transaction id): the node may run a lookup of its
    // own re-keyed id at the same time, whose answers are not this lookup's)
    let told: std::collections::BTreeSet<(Id, SocketAddrV4)> = lt.told_pairs.clone();
    if let Some(Outcome::Nodes(nodes)) = sim.take_outcome(op) {
        let got: Vec<(Id, SocketAddrV4)> = nodes.iter().map(|x| (*x.id().as_bytes(), x.address())).collect();
        let what = format!("peers={n} ghosts={} warm={warm} told={} reported={}", ghosts.len(), told.len(), got.len());
        let mut expect_sorted = got.clone();
        sort_closest(&target, &mut expect_sorted);
        let mut dedup = got.clone();
        dedup.sort();
        dedup.dedup();
        if got.len() > 20 {
            report.violate("order", "more-than-20-reported", format!("find_node reported {} nodes; {what}", got.len()));
        } else if got != expect_sorted {
            report.violate("order", "reported-nodes-not-sorted", format!("the reported nodes are not in secure-first / XOR order although every entry was listed with that id and address; {what}"));
        } else if dedup.len() != got.len() {
            report.violate("order", "reported-nodes-duplicate", format!("the reported list holds an (id, address) pair twice; {what}"));
        } else {
            let secure = |x: &(Id, SocketAddrV4)| krpc::bep42_secure(&x.0, *x.1.ip());
            if !warm {
                for g in &got {
                    if !told.contains(g) && g.1 != me {
                        report.violate("order", "reported-node-never-listed", format!("{} @ {} was reported but no answer listed it under that id; {what}", hex8(&g.0), g.1));
                    }
                }
            }
            // completeness: a told entry that sorts before the last reported one is reported, unless its
            // twin (same id, same class) is, or an entry of the same IP took its place
            for c in told.iter().filter(|c| c.1 != me) {
                if got.contains(c) {
                    continue;
                }
                // a stale alias of a live peer's address: the peer's current entry (possibly from the node's own
                // table, which no answer shows) holds that IP's place
                if aliases.contains(c) {
                    continue;
                }
                let before_last = match got.last() {
                    Some(last) if got.len() >= 20 => {
                        let mut pair = vec![*c, *last];
                        sort_closest(&target, &mut pair);
                        pair[0] == *c
                    }
                    _ => true,
                };
                let twin = got.iter().any(|g| g.0 == c.0 && secure(g) == secure(c));
                // (the accumulator admits one insecure node per IP and no two secure ones sharing a 21-bit prefix:
                // whichever entry of an IP it heard first may keep a later, closer one out - whether that first
                // entry made it into the reported 20 or not)
                let same_ip = got.iter().any(|g| g.1.ip() == c.1.ip()) || told.iter().any(|t| t != c && t.1.ip() == c.1.ip());
                if before_last && !twin && !same_ip {
                    if ctx.verbose {
                        println!("target {}", krpc::hex(&target));
                        for g in &got {
                            println!("  got  {} {} secure={}", krpc::hex(&g.0), g.1, secure(g));
                        }
                        for t in told.iter().filter(|t| t.0 == c.0 || t.1.ip() == c.1.ip()) {
                            println!("  told {} {} secure={}", krpc::hex(&t.0), t.1, secure(t));
                        }
                    }
                    report.violate("order", "reported-nodes-miss-a-closer-node", format!("{} @ {} (secure={}) was listed in an answer and sorts before the last reported node but is not reported; {what}", hex8(&c.0), c.1, secure(c)));
                    break;
                }
            }
        }
        let both_classes = ghosts.iter().filter(|g| got.contains(g) && got.iter().any(|x| x.0 == g.0 && x.1 != g.1)).count();
        report.probe("sybil_listing_runs", 1);
        report.probe("ids_reported_under_two_addresses", both_classes as u64);
        report.plan_dump = Some(what.clone());
        report.sample = Some(json!({"scenario": what}));
    }
    report.nontrivial = !ghosts.is_empty() && lt.queried.len() > 2;
    report.fingerprint = crate::rng::key(lt.arrival_fp, &[n as u64, ghosts.len() as u64]);
    finish(&sim, report)
}

fn run(ctx: &RunCtx) -> Report {
    if ctx.seed % 12 == 1 || ctx.seed % 12 == 5 {
        let mut r = run_sybil_listings(ctx);
        r.probe("lookup_side_runs", 1);
        return r;
    }
    if ctx.seed % 3 == 0 {
        // lookup side: accumulator order under arbitrary insertion sequences
        let mut r = (crate::props::c07::property().run)(ctx);
        r.probe("lookup_side_runs", 1);
        return r;
    }
    let mut report = Report::default();
    let mut rng = Rng::new(ctx.seed);
    let net = NetCfg {
        latency_min_us: 500,
        latency_max_us: rng.range(2_000, 80_000),
        ..NetCfg::default()
    };
    let sim = Sim::new(ctx.seed, net);
    let snaps = snapshot_recorder(&sim);
    let public = rng.chance(2, 3);
    // scripted peers fill the servers' tables (more than 20 entries so that selection matters)
    let rawnet = RawNet::new();
    let n_raw = rng.usize(5, 70);
    let focus: Id = rng.id();
    // two further plan elements (own random stream, the other draws stay as they were):
    // *mixed addresses* (1 run in 3): a quarter of the peers live on an address of the other class (LAN,
    // loopback or link-local addresses in a public plan, routable ones in a private plan), and reads come
    // from both classes of source address; *siblings* (1 run in 3): some peers have a second node on the
    // same IP (another port) whose id shares the first 21 bits - the table holds one of the two.
    let mut xr = Rng::new(crate::rng::key(ctx.seed, &[crate::rng::tag("c11-mixed-siblings")]));
    let mixed = xr.chance(1, 3);
    let siblings = xr.chance(1, 3);
    if mixed {
        report.probe("mixed_address_class_runs", 1);
    }
    let mut sibling_specs: Vec<(Id, SocketAddrV4, Option<Vec<u8>>)> = vec![];
    for i in 0..n_raw {
        let ip = if public { pub_ip(&mut rng) } else { priv_ip(200 + i) };
        let ip = if mixed && xr.chance(1, 4) {
            if public {
                match xr.below(4) {
                    0 => std::net::Ipv4Addr::new(192, 168, xr.below(256) as u8, xr.range(1, 254) as u8),
                    1 => std::net::Ipv4Addr::new(127, 0, xr.below(256) as u8, xr.range(1, 254) as u8),
                    2 => std::net::Ipv4Addr::new(169, 254, xr.below(256) as u8, xr.range(1, 254) as u8),
                    _ => priv_ip(300 + i),
                }
            } else {
                pub_ip(&mut xr)
            }
        } else {
            ip
        };
        let addr = SocketAddrV4::new(ip, 6881);
        let mut id = rng.id();
        if rng.chance(1, 3) {
            let keep = rng.usize(1, 18);
            id[..keep].copy_from_slice(&focus[..keep]);
        }
        if public && rng.chance(1, 2) {
            id = krpc::bep42_id(ip, id);
        }
        let mut p = Peer::new(id, addr);
        p.k = 20;
        if rng.chance(1, 3) {
            p.version = Some(b"LT\x01\x02".to_vec()); // not in the signed-peers table
        }
        if siblings && xr.chance(1, 4) {
            // same IP, next port; same first 21 bits (and the same BEP42 class as far as the id allows)
            let mut sid = xr.id();
            sid[..2].copy_from_slice(&id[..2]);
            sid[2] = (id[2] & 0xf8) | (sid[2] & 0x07);
            sid[19] = id[19];
            sibling_specs.push((sid, SocketAddrV4::new(ip, 6882), p.version.clone()));
        }
        rawnet.add(&sim, p);
    }
    let n_first = n_raw;
    for (sid, saddr, ver) in &sibling_specs {
        let mut p = Peer::new(*sid, *saddr);
        p.k = 20;
        p.version = ver.clone();
        rawnet.add(&sim, p);
    }
    report.probe("sibling_peers_same_ip_same_prefix", sibling_specs.len() as u64);
    let n_raw = n_first + sibling_specs.len();
    for i in 0..n_raw {
        let mut knows: Vec<usize> = (0..n_raw).collect();
        rng.shuffle(&mut knows);
        knows.truncate(rng.usize(3, n_raw));
        rawnet.with_peer(i, |p| p.knows = knows);
    }
    let n_srv = rng.usize(1, 4);
    let first_node = rng.chance(1, 3);
    let mut servers = vec![];
    for j in 0..n_srv {
        let ip = if public { pub_ip(&mut rng) } else { priv_ip(10 + j) };
        let mut s = NodeSpec::new(ip, 6881).server();
        s.bootstrap = (0..3.min(n_raw)).map(|i| rawnet.contact(i).1.to_string()).collect();
        if j == 0 && first_node {
            // the first node of a network: no bootstrap list, it learns its peers from their requests
            s.bootstrap = vec![];
        }
        if public && rng.chance(1, 2) {
            s.public_ip = Some(ip);
        }
        servers.push(sim.add_node(s));
    }
    if first_node {
        report.probe("first_node_servers", 1);
        for i in 0..n_raw {
            let (id, addr) = rawnet.contact(i);
            let o = MsgOpts { version: rawnet.with_peer(i, |p| p.version.clone()), ..MsgOpts::default() };
            sim.raw_send(addr, sim.node_addr(servers[0]), krpc::query(&krpc::tid_bytes(6000 + i as u32), "find_node", krpc::find_node_args(&id, &id), &o));
            sim.run_for(rng.range(1, 50) * MS);
        }
    }
    sim.run_for(5 * SEC);
    // let the servers learn more of the network through lookups
    for h in &servers {
        for _ in 0..rng.usize(0, 4) {
            let mut t = rng.id();
            if rng.chance(1, 2) {
                t[..4].copy_from_slice(&focus[..4]);
            }
            let o = sim.find_node(*h, t);
            sim.run_ops(&[o], sim.now() + 60 * SEC);
        }
    }
    // 1 run in 4: long uptime - every scripted peer falls silent and the reads are spread over the
    // minutes in which table members have not been heard from for 15 minutes but are still members
    // (until the next 5-minute maintenance round evicts them): replies list table *members*
    let ageing = rng.chance(1, 4);
    if ageing {
        for j in 0..rawnet.len() {
            rawnet.with_peer(j, |p| p.silent = true);
        }
        sim.run_for(rng.range(14 * 60, 15 * 60 + 30) * SEC);
        report.probe("ageing_runs", 1);
    }
    // 1 non-ageing run in 3 (own random stream): *a lone peer leaves* - the peers that sit alone in the nearest
    // occupied buckets of server 0's table fall silent; 21..24 minutes later they have been dropped (their
    // buckets are empty, farther ones are not) and every server starts a lookup of a fresh target: the lookup's
    // first round asks the closest table members - "selection always returns a prefix of that order of length
    // at least min(20, available)", observed on the wire
    let mut lrng = Rng::new(crate::rng::key(ctx.seed, &[crate::rng::tag("c11-lone-peer")]));
    if !ageing && lrng.chance(1, 3) {
        sim.want_snapshot(servers[0]);
        sim.run_for(600 * MS);
        if let Some(s0) = sim.snapshot(servers[0]) {
            let mut lone: Vec<(u8, SocketAddrV4)> = s0.routing_table.buckets.iter().filter(|(_, b)| b.len() == 1).map(|(k, b)| (*k, b[0].address)).collect();
            lone.sort();
            let leaving: Vec<SocketAddrV4> = lone.iter().take(lrng.usize(1, 2)).map(|x| x.1).collect();
            for j in 0..rawnet.len() {
                if leaving.contains(&rawnet.contact(j).1) {
                    rawnet.with_peer(j, |p| p.silent = true);
                }
            }
            if !leaving.is_empty() {
                sim.run_for(lrng.range(21 * 60, 24 * 60) * SEC);
                report.probe("lone_peer_left_runs", 1);
                for h in &servers {
                    // not next to a maintenance round (a removal between the snapshot and the call would blur the picture)
                    sim.want_snapshot(*h);
                    sim.run_for(600 * MS);
                    let Some(snap) = sim.snapshot(*h) else { continue };
                    if snap.since_table_ping_ns > 290 * SEC || snap.since_table_refresh_ns > 890 * SEC {
                        continue;
                    }
                    let t = lrng.id();
                    let mut members = table_nodes(&snap.routing_table);
                    sort_closest(&t, &mut members);
                    let t_issue = sim.now();
                    let op = sim.get_immutable(*h, t);
                    sim.run_ops(&[op], sim.now() + 120 * SEC);
                    let first_round: std::collections::BTreeSet<SocketAddrV4> = sim.with_trace(|tr| {
                        let reqs: Vec<(u64, SocketAddrV4)> = tr.iter().filter(|d| d.from_host == Some(*h) && d.t_send >= t_issue).filter(|d| Krpc::parse(&d.bytes).map(|k| k.is_query() && k.target() == Some(t)).unwrap_or(false)).map(|d| (d.t_send, d.dst)).collect();
                        let t_first = reqs.iter().map(|r| r.0).min().unwrap_or(0);
                        reqs.into_iter().filter(|r| r.0 == t_first).map(|r| r.1).collect()
                    });
                    report.probe("first_round_checks", 1);
                    if let Some(missing) = members.iter().take(10).find(|m| !first_round.contains(&m.1)) {
                        report.violate("closest", "lookup-first-round-misses-a-closest-table-member", format!("server {} looked {} up: its first round asked {} addresses but not {} @ {}, one of the 10 closest (secure first, then XOR) of its {} table members", sim.node_addr(*h), hex8(&t), first_round.len(), hex8(&missing.0), missing.1, members.len()));
                        break;
                    }
                }
            }
        }
    }
    // raw readers
    let reader = SocketAddrV4::new(if public { pub_ip(&mut rng) } else { priv_ip(5000) }, 5000);
    let (_, _log) = logging_raw(&sim, reader);
    // mixed runs: a second reader on an address of the other class
    let reader2 = SocketAddrV4::new(if public { priv_ip(5002) } else { pub_ip(&mut xr) }, 5002);
    if mixed {
        let (_, _log2) = logging_raw(&sim, reader2);
    }
    // 1 run in 3: the servers hold data for some of the targets that will be read - immutable values of
    // 1..1000 bytes and announced peers (a raw writer fetches a token and writes): replies that carry a
    // value carry the same node list
    let mut stored_targets: Vec<Id> = vec![];
    if rng.chance(1, 3) {
        let writer = SocketAddrV4::new(if public { pub_ip(&mut rng) } else { priv_ip(5001) }, 5001);
        let (_, wlog) = logging_raw(&sim, writer);
        for j in 0..rng.usize(1, 4) {
            let len = *rng.pick(&[1usize, 100, 700, 780, 800, 900, 999, 1000]);
            let v = rng.bytes(len);
            let t = krpc::immutable_target(&v);
            stored_targets.push(t);
            for (hi, h) in servers.iter().enumerate() {
                let srv = sim.node_addr(*h);
                let tid = 2000 + (j * 8 + hi) as u32;
                sim.raw_send(writer, srv, krpc::query(&krpc::tid_bytes(tid), "get", krpc::get_args(&[2u8; 20], &t, None), &MsgOpts::default()));
                sim.run_for(300 * MS);
                let token = wlog.borrow().iter().rev().filter(|(_, from, _)| *from == srv).filter_map(|(_, _, b)| Krpc::parse(b)).filter_map(|k| k.token().map(|t| t.to_vec())).next();
                if let Some(token) = token {
                    sim.raw_send(writer, srv, krpc::query(&krpc::tid_bytes(tid + 500), "put", krpc::put_immutable_args(&[2u8; 20], &t, &v, &token), &MsgOpts::default()));
                    sim.run_for(100 * MS);
                }
            }
        }
        report.probe("runs_with_stored_values", 1);
    }
    let n_reads = rng.usize(5, 40);
    report.elements = n_reads;
    let mut plan = vec![];
    // half of the runs: the second half of the reads repeats the first half (same server, query and
    // target) after the tables changed *without changing size*: some scripted peers moved to another
    // port (same id, old address silent) and the servers met them again through lookups
    let churn = rng.chance(1, 2) && n_reads >= 4 && !ageing;
    let half = n_reads / 2;
    let mut asked: Vec<(HostId, Id, &str)> = vec![];
    for i in 0..n_reads {
        let mut r = Rng::new(crate::rng::key(ctx.seed, &[crate::rng::tag("read"), i as u64]));
        if churn && i == half {
            let movers = r.usize(1, 4.min(n_raw));
            let mut moved = 0u64;
            for _ in 0..movers {
                let j = r.usize(0, n_raw - 1);
                let (id, addr) = rawnet.contact(j);
                if rawnet.with_peer(j, |p| p.silent) {
                    continue;
                }
                let new_addr = SocketAddrV4::new(*addr.ip(), addr.port().wrapping_add(1 + r.below(50) as u16));
                let mut p = Peer::new(id, new_addr);
                p.k = 20;
                p.knows = rawnet.with_peer(j, |p| p.knows.clone());
                p.version = rawnet.with_peer(j, |p| p.version.clone());
                let nj = rawnet.add(&sim, p);
                rawnet.with_peer(j, |p| p.silent = true);
                for x in 0..rawnet.len() {
                    rawnet.with_peer(x, |p| {
                        for k in p.knows.iter_mut() {
                            if *k == j {
                                *k = nj;
                            }
                        }
                    });
                }
                // the moved peer announces itself the way a (re)joining node does
                let ver = rawnet.with_peer(nj, |p| p.version.clone());
                for h in &servers {
                    let o = MsgOpts { version: ver.clone(), ..MsgOpts::default() };
                    sim.raw_send(new_addr, sim.node_addr(*h), krpc::query(&krpc::tid_bytes(7000 + moved as u32), "find_node", krpc::find_node_args(&id, &id), &o));
                }
                sim.run_for(400 * MS);
                for h in &servers {
                    let o = sim.find_node(*h, id);
                    sim.run_ops(&[o], sim.now() + 60 * SEC);
                }
                moved += 1;
            }
            report.probe("peers_moved_to_another_port", moved);
        }
        if !ctx.enabled(i) {
            asked.push((servers[0], focus, "find_node"));
            continue;
        }
        let h = servers[r.usize(0, servers.len() - 1)];
        let mut t = r.id();
        match r.below(4) {
            0 => t = focus,
            1 => {
                let keep = r.usize(1, 19);
                t[..keep].copy_from_slice(&focus[..keep]);
            }
            2 => {
                // a target equal or adjacent to a table member's id
                let j = r.usize(0, n_raw - 1);
                t = rawnet.contact(j).0;
                if r.chance(1, 2) {
                    t[19] ^= 1;
                }
            }
            _ => {}
        }
        let mut q = *r.pick(&["find_node", "get", "get_peers", "get_signed_peers"]);
        if !stored_targets.is_empty() && r.chance(1, 3) {
            t = stored_targets[r.usize(0, stored_targets.len() - 1)];
            q = "get";
        }
        let (h, t, q) = if churn && i >= half && i - half < asked.len() { asked[i - half] } else { (h, t, q) };
        asked.push((h, t, q));
        let args = match q {
            "find_node" => krpc::find_node_args(&[1u8; 20], &t),
            "get" => krpc::get_args(&[1u8; 20], &t, None),
            _ => krpc::get_peers_args(&[1u8; 20], &t),
        };
        let opts = MsgOpts {
            ro: Some(1),
            ..MsgOpts::default()
        };
        plan.push(format!("read[{i}] {q}({}) -> {}", hex8(&t), sim.node_addr(h)));
        let src = if mixed && r.chance(1, 2) { reader2 } else { reader };
        sim.raw_send(src, sim.node_addr(h), krpc::query(&krpc::tid_bytes(1000 + i as u32), q, args, &opts));
        sim.run_for(if ageing { r.range(1, 25_000) } else { r.range(1, 300) } * MS);
    }
    sim.run_for(2 * SEC);
    for h in &servers {
        if let Some(d) = sim.died(*h) {
            report.violate("node-died", "server-actor-panicked", format!("server died: {d}"));
        }
    }
    check_server_replies(&sim, &servers, &snaps.borrow(), &mut report);
    let sizes: Vec<usize> = servers.iter().map(|h| sim.snapshot(*h).map(|s| s.routing_table.size).unwrap_or(0)).collect();
    report.nontrivial = sizes.iter().any(|s| *s > 20);
    report.probe("reads_sent", plan.len() as u64);
    if sizes.iter().any(|s| *s > 20) {
        report.probe("tables_with_more_than_20_entries", 1);
    }
    report.sample = Some(json!({"servers": n_srv, "scripted_peers": n_raw, "table_sizes": sizes, "public": public, "reads": plan.iter().take(5).collect::<Vec<_>>() }));
    report.plan_dump = Some(format!("servers={n_srv} scripted={n_raw} public={public} table sizes={sizes:?}\n{}", plan.join("\n")));
    finish(&sim, report)
}

pub fn property() -> Property {
    Property {
        id: "C11",
        run,
        budget: |t| match t {
            Tier::Quick => 6000,
            Tier::Thorough => 200_000,
        },
        wall_cap_s: |t| match t {
            Tier::Quick => 70.0,
            Tier::Thorough => 1500.0,
        },
        info: || PropInfo {
            floors: vec![],
            rule: "2/3 of the runs (server side): 1..4 real servers fill their tables from 5..70 scripted peers (private or public plan, secure/insecure mixes, ids clustered at a focus, peers with and without signed-peers support) through bootstrap and extra lookups; 5..40 raw read requests (find_node/get/get_peers/get_signed_peers; targets random, at/near the focus, equal or adjacent to member ids); every reply's node list must equal the harness's own secure-first/XOR selection from the table snapshot of the same step (segment-wise for find_node). 1/3 of the runs (lookup side) are the C07 scenario: shuffled node lists into the accumulator, reported list and write destinations checked against the harness's order. Non-trivial (server side) = a table held more than 20 entries; distinct = delivery-order hash. Not reached: take_until_secure for arbitrary (size estimate, subnets) parameters - only values real nodes compute occur".into(),
            assumptions: vec!["find_node replies are the signed-peers table's closest followed by the main table's closest, up to 20 (CHANGELOG 6.1.0)".into()],
        },
    }
}
