//! Hostile datagram generation: a structured catalogue around well-formed KRPC messages
//! (every message kind x every field x every type/length confusion), grammar-random bencode,
//! byte-level templates and mutations.

use crate::bencode::Value;
use crate::krpc;
use crate::rng::Rng;

/// The 18 well-formed base messages (9 requests, 8 responses, 1 error), as bencode values.
pub fn base_messages(rng: &mut Rng, tid: &[u8]) -> Vec<(&'static str, Value)> {
    let id = rng.id();
    let target = rng.id();
    let key = krpc::signing_key(rng.bytes(32).try_into().unwrap());
    let item = krpc::Item::signed(&key, Some(b"salt"), 3, b"hello");
    let t = 1_767_225_600_000_000i64;
    let ann_sig = krpc::sign(&key, &krpc::signed_announce_signable(&target, t as u64));
    let nodes = krpc::compact_nodes(&[(rng.id(), "10.1.2.3:6881".parse().unwrap()), (rng.id(), "10.1.2.4:6882".parse().unwrap())]);
    let mut signed_entry = key.verifying_key().to_bytes().to_vec();
    signed_entry.extend_from_slice(&(t as u64).to_be_bytes());
    signed_entry.extend_from_slice(&ann_sig);
    let q = |name: &str, a: Value| {
        Value::dict(vec![
            ("t", Value::bytes(tid)),
            ("y", Value::str("q")),
            ("q", Value::str(name)),
            ("a", a),
            ("v", Value::bytes(&krpc::VERSION_RS6)),
            ("ro", Value::Int(0)),
        ])
    };
    let r = |items: Vec<(&str, Value)>| {
        Value::dict(vec![
            ("t", Value::bytes(tid)),
            ("y", Value::str("r")),
            ("r", Value::dict(items)),
            ("v", Value::bytes(&krpc::VERSION_RS6)),
            ("ip", Value::Bytes(vec![10, 0, 0, 9, 0x1a, 0xe1])),
        ])
    };
    vec![
        ("q-ping", q("ping", krpc::ping_args(&id))),
        ("q-find_node", q("find_node", krpc::find_node_args(&id, &target))),
        ("q-get_peers", q("get_peers", krpc::get_peers_args(&id, &target))),
        ("q-get_signed_peers", q("get_signed_peers", krpc::get_peers_args(&id, &target))),
        ("q-get", q("get", krpc::get_args(&id, &target, Some(2)))),
        ("q-announce_peer", q("announce_peer", krpc::announce_peer_args(&id, &target, 7000, Some(1), b"tokn"))),
        ("q-announce_signed_peer", q("announce_signed_peer", krpc::announce_signed_peer_args(&id, &target, &key.verifying_key().to_bytes(), &ann_sig, t, b"tokn"))),
        ("q-put-immutable", q("put", krpc::put_immutable_args(&id, &krpc::immutable_target(b"hello"), b"hello", b"tokn"))),
        ("q-put-mutable", q("put", krpc::put_mutable_args(&id, &item.target(), &item.v, &item.k, &item.sig, item.seq, Some(2), Some(b"salt"), b"tokn"))),
        ("r-ping", r(vec![("id", Value::bytes(&id))])),
        ("r-find_node", r(vec![("id", Value::bytes(&id)), ("nodes", Value::bytes(&nodes))])),
        ("r-get_peers", r(vec![("id", Value::bytes(&id)), ("token", Value::str("tokn")), ("nodes", Value::bytes(&nodes)), ("values", Value::List(vec![Value::Bytes(vec![10, 0, 0, 7, 0x1b, 0x58])]))])),
        ("r-get_signed_peers", r(vec![("id", Value::bytes(&id)), ("token", Value::str("tokn")), ("nodes", Value::bytes(&nodes)), ("peers", Value::List(vec![Value::Bytes(signed_entry)]))])),
        ("r-no_values", r(vec![("id", Value::bytes(&id)), ("token", Value::str("tokn")), ("nodes", Value::bytes(&nodes))])),
        ("r-get-immutable", r(vec![("id", Value::bytes(&id)), ("token", Value::str("tokn")), ("nodes", Value::bytes(&nodes)), ("v", Value::str("hello"))])),
        (
            "r-get-mutable",
            r(vec![
                ("id", Value::bytes(&id)),
                ("token", Value::str("tokn")),
                ("nodes", Value::bytes(&nodes)),
                ("v", Value::bytes(&item.v)),
                ("k", Value::bytes(&item.k)),
                ("sig", Value::bytes(&item.sig)),
                ("seq", Value::Int(3)),
            ]),
        ),
        ("r-no_more_recent", r(vec![("id", Value::bytes(&id)), ("token", Value::str("tokn")), ("nodes", Value::bytes(&nodes)), ("seq", Value::Int(3))])),
        (
            "e-error",
            Value::dict(vec![
                ("t", Value::bytes(tid)),
                ("y", Value::str("e")),
                ("e", Value::List(vec![Value::Int(203), Value::str("Bad token")])),
                ("v", Value::bytes(&krpc::VERSION_RS6)),
            ]),
        ),
    ]
}

#[derive(Clone, Copy, Debug, PartialEq)]
pub enum Mutation {
    Remove,
    ToInt0,
    ToIntNeg,
    ToIntMax,
    ToIntMin,
    ToInt65536,
    ToEmptyBytes,
    ToList,
    ToEmptyList,
    ToDict,
    ToBytes1,
    TruncateOne,
    ExtendOne,
    Huge,
    Double,
    ListOfEmpty,
    NestedList,
    BytesInList,
}

pub const MUTATIONS: [Mutation; 18] = [
    Mutation::Remove,
    Mutation::ToInt0,
    Mutation::ToIntNeg,
    Mutation::ToIntMax,
    Mutation::ToIntMin,
    Mutation::ToInt65536,
    Mutation::ToEmptyBytes,
    Mutation::ToList,
    Mutation::ToEmptyList,
    Mutation::ToDict,
    Mutation::ToBytes1,
    Mutation::TruncateOne,
    Mutation::ExtendOne,
    Mutation::Huge,
    Mutation::Double,
    Mutation::ListOfEmpty,
    Mutation::NestedList,
    Mutation::BytesInList,
];

/// Field paths of a message: top-level keys and keys of the `a` / `r` dictionary.
pub fn paths(msg: &Value) -> Vec<(Option<String>, String)> {
    let mut out = vec![];
    if let Value::Dict(items) = msg {
        for (k, v) in items {
            let key = String::from_utf8_lossy(k).to_string();
            out.push((None, key.clone()));
            if key == "a" || key == "r" {
                if let Value::Dict(inner) = v {
                    for (ik, _) in inner {
                        out.push((Some(key.clone()), String::from_utf8_lossy(ik).to_string()));
                    }
                }
            }
        }
    }
    out
}

fn apply_to(v: &Value, m: Mutation) -> Option<Value> {
    Some(match m {
        Mutation::Remove => return None,
        Mutation::ToInt0 => Value::Int(0),
        Mutation::ToIntNeg => Value::Int(-1),
        Mutation::ToIntMax => Value::Int(i64::MAX),
        Mutation::ToIntMin => Value::Int(i64::MIN),
        Mutation::ToInt65536 => Value::Int(65536),
        Mutation::ToEmptyBytes => Value::Bytes(vec![]),
        Mutation::ToList => Value::List(vec![v.clone()]),
        Mutation::ToEmptyList => Value::List(vec![]),
        Mutation::ToDict => Value::Dict(vec![(b"x".to_vec(), v.clone())]),
        Mutation::ToBytes1 => Value::Bytes(vec![b'1']),
        Mutation::TruncateOne => match v {
            Value::Bytes(b) if !b.is_empty() => Value::Bytes(b[..b.len() - 1].to_vec()),
            Value::List(l) if !l.is_empty() => Value::List(l[..l.len() - 1].to_vec()),
            Value::Int(i) => Value::Int(i.wrapping_sub(1)),
            other => other.clone(),
        },
        Mutation::ExtendOne => match v {
            Value::Bytes(b) => {
                let mut b = b.clone();
                b.push(0x41);
                Value::Bytes(b)
            }
            Value::List(l) => {
                let mut l = l.clone();
                l.push(Value::Int(7));
                Value::List(l)
            }
            Value::Int(i) => Value::Int(i.wrapping_add(1)),
            other => other.clone(),
        },
        Mutation::Huge => Value::Bytes(vec![0x42; 1400]),
        Mutation::Double => match v {
            Value::Bytes(b) => {
                let mut x = b.clone();
                x.extend_from_slice(b);
                Value::Bytes(x)
            }
            Value::List(l) => {
                let mut x = l.clone();
                x.extend_from_slice(l);
                Value::List(x)
            }
            Value::Int(i) => Value::Int(i.wrapping_mul(2)),
            other => other.clone(),
        },
        Mutation::ListOfEmpty => Value::List(vec![Value::Bytes(vec![])]),
        Mutation::NestedList => Value::List(vec![Value::List(vec![Value::List(vec![])])]),
        Mutation::BytesInList => Value::List(vec![Value::Bytes(vec![1, 2, 3]), Value::Bytes(vec![0; 104]), Value::Bytes(vec![0; 6])]),
    })
}

pub fn mutate(msg: &Value, path: &(Option<String>, String), m: Mutation) -> Value {
    let mut out = msg.clone();
    let container: &mut Value = match &path.0 {
        None => &mut out,
        Some(outer) => match out.get_mut(outer) {
            Some(c) => c,
            None => return out,
        },
    };
    let Some(current) = container.get(&path.1).cloned() else {
        return out;
    };
    match apply_to(&current, m) {
        None => {
            container.remove(&path.1);
        }
        Some(v) => container.set(&path.1, v),
    }
    out
}

pub struct Catalogue {
    pub entries: Vec<(usize, (Option<String>, String), Mutation)>,
    pub bases: Vec<(&'static str, Value)>,
}

impl Catalogue {
    pub fn new(rng: &mut Rng, tid: &[u8]) -> Catalogue {
        let bases = base_messages(rng, tid);
        let mut entries = vec![];
        for (bi, (_, b)) in bases.iter().enumerate() {
            for p in paths(b) {
                for m in MUTATIONS {
                    entries.push((bi, p.clone(), m));
                }
            }
        }
        Catalogue { entries, bases }
    }
    pub fn len(&self) -> usize {
        self.entries.len()
    }
    pub fn get(&self, idx: usize) -> (String, Vec<u8>) {
        let (bi, p, m) = &self.entries[idx % self.entries.len()];
        let v = mutate(&self.bases[*bi].1, p, *m);
        (
            format!("{}:{}{}:{:?}", self.bases[*bi].0, p.0.as_ref().map(|s| format!("{s}.")).unwrap_or_default(), p.1, m),
            v.encode(),
        )
    }
    /// Two mutations on one base message.
    pub fn pair(&self, rng: &mut Rng) -> (String, Vec<u8>) {
        let (bi, p1, m1) = self.entries[rng.usize(0, self.entries.len() - 1)].clone();
        let v = mutate(&self.bases[bi].1, &p1, m1);
        let ps = paths(&v);
        let p2 = ps[rng.usize(0, ps.len() - 1)].clone();
        let m2 = MUTATIONS[rng.usize(0, MUTATIONS.len() - 1)];
        let v2 = mutate(&v, &p2, m2);
        (format!("{}:{}:{:?}+{}:{:?}", self.bases[bi].0, p1.1, m1, p2.1, m2), v2.encode())
    }
}

pub fn random_bencode(rng: &mut Rng, depth: usize) -> Value {
    let roll = if depth == 0 { rng.below(2) } else { rng.below(5) };
    match roll {
        0 => Value::Int(match rng.below(4) {
            0 => 0,
            1 => i64::MAX,
            2 => i64::MIN,
            _ => rng.next_u64() as i64 >> rng.below(60),
        }),
        1 => {
            let n = match rng.below(6) {
                0 => 0,
                1 => 20,
                2 => 26,
                3 => 104,
                _ => rng.usize(0, 40),
            };
            Value::Bytes(rng.bytes(n))
        }
        2 => Value::List((0..rng.usize(0, 4)).map(|_| random_bencode(rng, depth - 1)).collect()),
        _ => {
            let keys = ["t", "y", "q", "a", "r", "e", "v", "ip", "ro", "id", "target", "info_hash", "token", "nodes", "values", "peers", "k", "sig", "seq", "cas", "salt", "port", "implied_port"];
            let n = rng.usize(0, 6);
            let mut items: Vec<(Vec<u8>, Value)> = (0..n).map(|_| (rng.pick(&keys).as_bytes().to_vec(), random_bencode(rng, depth - 1))).collect();
            if rng.chance(3, 4) {
                items.sort_by(|a, b| a.0.cmp(&b.0));
                items.dedup_by(|a, b| a.0 == b.0);
            }
            Value::Dict(items)
        }
    }
}

/// Grammar-random message: a KRPC-looking top level with random contents.
pub fn random_message(rng: &mut Rng) -> Vec<u8> {
    let mut top = vec![];
    let y = *rng.pick(&["q", "r", "e", "x"]);
    let tl = *rng.pick(&[0usize, 1, 2, 4, 8]);
    top.push((b"t".to_vec(), Value::Bytes(rng.bytes(tl))));
    top.push((b"y".to_vec(), Value::str(y)));
    if rng.chance(1, 2) {
        top.push((b"q".to_vec(), Value::str(*rng.pick(&["ping", "find_node", "get_peers", "get_signed_peers", "get", "put", "announce_peer", "announce_signed_peer", "vote", ""]))));
    }
    for k in ["a", "r", "e"] {
        if rng.chance(1, 2) {
            top.push((k.as_bytes().to_vec(), random_bencode(rng, 3)));
        }
    }
    top.sort_by(|a, b| a.0.cmp(&b.0));
    Value::Dict(top).encode()
}

/// Byte-level nasties that no bencode writer would produce.
/// Error messages (and queries) whose text fields are long and carry multi-byte UTF-8 characters that
/// straddle the cut points a decoder might truncate at (31/32, 63/64, 127/128, 255/256, ...), or
/// bytes that are not UTF-8 at all.
pub fn bomb_text(rng: &mut Rng) -> Vec<u8> {
    let cut = *rng.pick(&[16usize, 32, 64, 100, 120, 128, 200, 255, 256, 500, 512, 1000, 1024]);
    let ch: &[u8] = *rng.pick(&[&b"\xc3\xa9"[..], &b"\xe2\x82\xac"[..], &b"\xf0\x9f\x98\x80"[..], &b"\xff\xfe"[..], &b"\xc3"[..]]);
    if rng.chance(1, 3) {
        // multi-byte characters only (after 0..3 ASCII bytes): every cut point falls inside a character
        // for one of the alignments
        let mut text = vec![b'a'; rng.usize(0, 3)];
        while text.len() < cut + 8 {
            text.extend_from_slice(ch);
        }
        return text;
    }
    // the character starts 1..len bytes before the cut
    let before = cut.saturating_sub(rng.usize(1, ch.len()));
    let mut text = vec![b'a'; before];
    text.extend_from_slice(ch);
    let tail = rng.usize(0, 40);
    for _ in 0..tail {
        if rng.chance(1, 4) {
            text.extend_from_slice(ch);
        } else {
            text.push(b'b');
        }
    }
    text
}

pub fn text_bomb(rng: &mut Rng) -> Vec<u8> {
    let text = bomb_text(rng);
    let tid: Vec<u8> = if rng.chance(1, 2) { b"aa".to_vec() } else { (rng.range(0, 80) as u32).to_be_bytes().to_vec() };
    let code = *rng.pick(&[201i64, 202, 203, 204, 205, 206, 207, 301, 302, 0, -1]);
    let msg = match rng.below(4) {
        0 => Value::dict(vec![("t", Value::Bytes(tid)), ("y", Value::str("q")), ("q", Value::Bytes(text)), ("a", Value::dict(vec![("id", Value::Bytes(vec![7u8; 20]))]))]),
        1 => Value::dict(vec![("t", Value::Bytes(tid)), ("y", Value::str("e")), ("v", Value::Bytes(text.clone())), ("e", Value::List(vec![Value::Int(code), Value::Bytes(text)]))]),
        _ => Value::dict(vec![("t", Value::Bytes(tid)), ("y", Value::str("e")), ("e", Value::List(vec![Value::Int(code), Value::Bytes(text)]))]),
    };
    msg.encode()
}

pub fn template(rng: &mut Rng) -> Vec<u8> {
    if rng.chance(1, 4) {
        return text_bomb(rng);
    }
    let templates: Vec<Vec<u8>> = vec![
        b"d1:ad2:id20:abcdefghij0123456789e1:q4:ping1:t2:aa1:y1:qe".to_vec(),
        b"d1:ad2:id20:abcdefghij0123456789e1:q4:ping1:t2:aa1:y1:q".to_vec(),
        b"d1:t2:aa1:y1:q1:q4:ping1:ad2:id20:abcdefghij0123456789ee".to_vec(),
        b"d1:t2:aa1:t2:bb1:y1:q1:q4:ping1:ad2:id20:abcdefghij0123456789ee".to_vec(),
        b"d1:ad2:id20:abcdefghij0123456789e1:q4:ping1:t99999999999999999999:aa1:y1:qe".to_vec(),
        b"d1:ad2:id20:abcdefghij0123456789e1:q4:ping1:t-1:aa1:y1:qe".to_vec(),
        b"d1:ad2:id20:abcdefghij0123456789e1:q4:ping1:roi-0e1:t2:aa1:y1:qe".to_vec(),
        b"d1:ad2:id20:abcdefghij0123456789e1:q4:ping1:roi00001e1:t2:aa1:y1:qe".to_vec(),
        b"d1:ad2:id20:abcdefghij0123456789e1:q4:ping1:roi99999999999999999999999999999e1:t2:aa1:y1:qe".to_vec(),
        b"d1:eli201e23:A Generic Error Ocurrede1:t2:aa1:y1:ee".to_vec(),
        b"d1:eli99999999999e1:xe1:t2:aa1:y1:ee".to_vec(),
        b"d1:ele1:t2:aa1:y1:ee".to_vec(),
        b"d1:el1:xi3ee1:t2:aa1:y1:ee".to_vec(),
        b"d1:ei201e1:t2:aa1:y1:ee".to_vec(),
        {
            let mut v = b"d1:a".to_vec();
            v.extend(std::iter::repeat_n(b'l', 1000));
            v.extend(std::iter::repeat_n(b'e', 1000));
            v.extend_from_slice(b"1:q4:ping1:t2:aa1:y1:qe");
            v
        },
        {
            let mut v = vec![];
            v.extend(std::iter::repeat_n(b'd', 1));
            v.extend(std::iter::repeat_n(b'l', 2040));
            v
        },
        {
            let mut v = b"d1:a".to_vec();
            for _ in 0..400 {
                v.extend_from_slice(b"d1:a");
            }
            v
        },
        vec![b'd'; 15],
        vec![b'd'; 2048],
        b"d4:spam4:eggse".to_vec(),
        b"de".to_vec(),
        b"d1:t0:1:y1:re".to_vec(),
        b"d1:rd2:id20:abcdefghij0123456789e1:t4:\x00\x00\x00\x001:y1:re".to_vec(),
        b"d2:ip6:\x7f\x00\x00\x01\x1a\xe11:rd2:id20:abcdefghij0123456789e1:t4:\x00\x00\x00\x011:y1:re".to_vec(),
        b"d2:ip18:0123456789abcdefgh1:rd2:id20:abcdefghij0123456789e1:t4:\x00\x00\x00\x011:y1:re".to_vec(),
    ];
    templates[rng.usize(0, templates.len() - 1)].clone()
}

pub fn mutate_bytes(rng: &mut Rng, input: &[u8]) -> Vec<u8> {
    let mut v = input.to_vec();
    if v.is_empty() {
        return v;
    }
    for _ in 0..rng.usize(1, 4) {
        if v.is_empty() {
            break;
        }
        match rng.below(7) {
            0 => {
                let i = rng.usize(0, v.len() - 1);
                v[i] ^= 1 << rng.below(8);
            }
            1 => {
                let n = rng.usize(0, v.len() - 1);
                v.truncate(n);
            }
            2 => {
                let i = rng.usize(0, v.len() - 1);
                v[i] = *rng.pick(b"dlei0123456789:-e");
            }
            3 => {
                let i = rng.usize(0, v.len());
                let b = rng.bytes(rng.clone().usize(1, 8));
                for (j, x) in b.iter().enumerate() {
                    v.insert((i + j).min(v.len()), *x);
                }
            }
            4 => {
                // splice: duplicate a chunk
                let a = rng.usize(0, v.len() - 1);
                let b = rng.usize(a, v.len() - 1);
                let chunk = v[a..=b].to_vec();
                let at = rng.usize(0, v.len());
                for (j, x) in chunk.iter().enumerate() {
                    if v.len() >= 2048 {
                        break;
                    }
                    v.insert((at + j).min(v.len()), *x);
                }
            }
            5 => {
                // change a decimal length prefix
                if let Some(i) = v.iter().position(|c| *c == b':') {
                    if i > 0 {
                        v[i - 1] = *rng.pick(b"0123456789");
                    }
                }
            }
            _ => {
                let i = rng.usize(0, v.len() - 1);
                v.remove(i);
            }
        }
    }
    v.truncate(2048);
    v
}
