use crate::props::server_model::{self, Flavor};
use crate::props::{PropInfo, Property, Report, RunCtx, Tier};

fn run(ctx: &RunCtx) -> Report {
    server_model::run(ctx, Flavor::C04)
}

pub fn property() -> Property {
    Property {
        id: "C04",
        run,
        budget: |t| match t {
            Tier::Quick => 8000,
            Tier::Thorough => 400_000,
        },
        wall_cap_s: |t| match t {
            Tier::Quick => 60.0,
            Tier::Thorough => 1500.0,
        },
        info: || PropInfo {
            floors: vec![],
            rule: "one run = one seeded request history (1..40 datagrams: get/get_peers/get_signed_peers/find_node/ping and the four write kinds with fresh/old/other-IP/other-node/mutated/empty tokens and valid/invalid payloads incl. 1000/1001, 64/65, +-44/46 s) from 2-4 raw clients on close/shared/unrelated IPs against one real server (capacities 1..3 or default, optional request filter, skewed clocks), under duplication/reordering/loss; the reference model is advanced in the order the server consumed the datagrams. Non-trivial = at least one write reached the model; distinct = hash of the consumed (kind, source) sequence".into(),
            assumptions: vec![
                "token validity window is the property's (must accept <= 5 min, must reject > 10 min + 2*gap, either in between)".into(),
                "LRU victim accepted unless a survivor was certainly used less recently".into(),
                "an equal-seq put with a different value may be accepted or rejected (state must follow); a cas put on an empty slot must be accepted".into(),
                "ed25519-dalek and sha1_smol are trusted for the oracle's own re-verification".into(),
            ],
        },
    }
}
