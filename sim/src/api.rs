//! Convenience wrappers issuing the public AsyncDht API calls inside the simulator.

use std::net::SocketAddrV4;

use dht::{Id, MutableItem, SigningKey};
use futures_lite::StreamExt;

use crate::sim::{HostId, OpId, Outcome, Sim};

#[derive(Clone, Debug)]
pub struct InfoData {
    pub id: [u8; 20],
    pub local_addr: SocketAddrV4,
    pub public_address: Option<SocketAddrV4>,
    pub firewalled: bool,
    pub server_mode: bool,
    pub dht_size_estimate: (usize, f64),
    pub routing_table_size: usize,
    pub signed_routing_table_size: usize,
}

pub fn id(b: &[u8; 20]) -> Id {
    Id::from_bytes(b).expect("20 bytes")
}

/// Pending until the virtual clock reaches `t` (the API futures are polled after every step of their node).
async fn gate(sim: &Sim, t: u64) {
    let sim = sim.clone();
    futures_lite::future::poll_fn(move |_| if sim.now() >= t { std::task::Poll::Ready(()) } else { std::task::Poll::Pending }).await
}

impl Sim {
    pub fn put_immutable(&self, host: HostId, value: Vec<u8>) -> OpId {
        self.call(host, "put_immutable", move |d| async move {
            Outcome::PutImmutable(d.put_immutable(&value).await)
        })
    }
    pub fn get_immutable(&self, host: HostId, target: [u8; 20]) -> OpId {
        self.call(host, "get_immutable", move |d| async move {
            Outcome::Immutable(d.get_immutable(id(&target)).await)
        })
    }
    pub fn put_mutable(&self, host: HostId, item: MutableItem, cas: Option<i64>) -> OpId {
        self.call(host, "put_mutable", move |d| async move {
            Outcome::PutMutable(d.put_mutable(item, cas).await)
        })
    }
    pub fn get_mutable(
        &self,
        host: HostId,
        pk: [u8; 32],
        salt: Option<Vec<u8>>,
        more_recent_than: Option<i64>,
    ) -> OpId {
        let sim = self.clone();
        self.call(host, "get_mutable", move |d| async move {
            let mut s = d.get_mutable(&pk, salt.as_deref(), more_recent_than);
            let mut items = vec![];
            while let Some(item) = s.next().await {
                items.push((sim.now(), item));
            }
            Outcome::Mutable(items)
        })
    }
    /// Like `get_mutable`, but the application opens the stream and does not read from it before the
    /// virtual instant `release_at` (a slow consumer); then it drains it.
    pub fn get_mutable_held(&self, host: HostId, pk: [u8; 32], salt: Option<Vec<u8>>, release_at: u64) -> OpId {
        let sim = self.clone();
        self.call(host, "get_mutable", move |d| async move {
            let mut s = d.get_mutable(&pk, salt.as_deref(), None);
            gate(&sim, release_at).await;
            let mut items = vec![];
            while let Some(item) = s.next().await {
                items.push((sim.now(), item));
            }
            Outcome::Mutable(items)
        })
    }
    pub fn get_peers_held(&self, host: HostId, info_hash: [u8; 20], release_at: u64) -> OpId {
        let sim = self.clone();
        self.call(host, "get_peers", move |d| async move {
            let mut s = d.get_peers(id(&info_hash));
            gate(&sim, release_at).await;
            let mut items = vec![];
            while let Some(item) = s.next().await {
                items.push((sim.now(), item));
            }
            Outcome::Peers(items)
        })
    }
    pub fn get_signed_peers_held(&self, host: HostId, info_hash: [u8; 20], release_at: u64) -> OpId {
        let sim = self.clone();
        self.call(host, "get_signed_peers", move |d| async move {
            let mut s = d.get_signed_peers(id(&info_hash)).await;
            gate(&sim, release_at).await;
            let mut items = vec![];
            while let Some(item) = s.next().await {
                items.push((
                    sim.now(),
                    item.iter()
                        .map(|a| (*a.key(), a.timestamp(), *a.signature()))
                        .collect(),
                ));
            }
            Outcome::SignedPeers(items)
        })
    }
    pub fn get_mutable_most_recent(&self, host: HostId, pk: [u8; 32], salt: Option<Vec<u8>>) -> OpId {
        self.call(host, "get_mutable_most_recent", move |d| async move {
            Outcome::MostRecent(d.get_mutable_most_recent(&pk, salt.as_deref()).await)
        })
    }
    pub fn announce_peer(&self, host: HostId, info_hash: [u8; 20], port: Option<u16>) -> OpId {
        self.call(host, "announce_peer", move |d| async move {
            Outcome::Announce(d.announce_peer(id(&info_hash), port).await)
        })
    }
    pub fn get_peers(&self, host: HostId, info_hash: [u8; 20]) -> OpId {
        let sim = self.clone();
        self.call(host, "get_peers", move |d| async move {
            let mut s = d.get_peers(id(&info_hash));
            let mut items = vec![];
            while let Some(item) = s.next().await {
                items.push((sim.now(), item));
            }
            Outcome::Peers(items)
        })
    }
    pub fn announce_signed_peer(&self, host: HostId, info_hash: [u8; 20], key_seed: [u8; 32]) -> OpId {
        self.call(host, "announce_signed_peer", move |d| async move {
            let signer = SigningKey::from_bytes(&key_seed);
            Outcome::Announce(d.announce_signed_peer(id(&info_hash), &signer).await)
        })
    }
    pub fn get_signed_peers(&self, host: HostId, info_hash: [u8; 20]) -> OpId {
        let sim = self.clone();
        self.call(host, "get_signed_peers", move |d| async move {
            let mut s = d.get_signed_peers(id(&info_hash)).await;
            let mut items = vec![];
            while let Some(item) = s.next().await {
                items.push((
                    sim.now(),
                    item.iter()
                        .map(|a| (*a.key(), a.timestamp(), *a.signature()))
                        .collect(),
                ));
            }
            Outcome::SignedPeers(items)
        })
    }
    pub fn find_node(&self, host: HostId, target: [u8; 20]) -> OpId {
        self.call(host, "find_node", move |d| async move {
            Outcome::Nodes(d.find_node(id(&target)).await)
        })
    }
    pub fn get_closest_nodes(&self, host: HostId, target: [u8; 20]) -> OpId {
        self.call(host, "get_closest_nodes", move |d| async move {
            Outcome::Nodes(d.get_closest_nodes(id(&target)).await)
        })
    }
    pub fn bootstrapped(&self, host: HostId) -> OpId {
        self.call(host, "bootstrapped", move |d| async move {
            Outcome::Bool(d.bootstrapped().await)
        })
    }
    pub fn info(&self, host: HostId) -> OpId {
        self.call(host, "info", move |d| async move {
            let i = d.info().await;
            Outcome::Info(InfoData {
                id: *i.id().as_bytes(),
                local_addr: i.local_addr(),
                public_address: i.public_address(),
                firewalled: i.firewalled(),
                server_mode: i.server_mode(),
                dht_size_estimate: i.dht_size_estimate(),
                routing_table_size: i.routing_table_size(),
                signed_routing_table_size: i.singing_peers_routing_table_size(),
            })
        })
    }
    pub fn to_bootstrap(&self, host: HostId) -> OpId {
        self.call(host, "to_bootstrap", move |d| async move {
            Outcome::ToBootstrap(d.to_bootstrap().await)
        })
    }
}
