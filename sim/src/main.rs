mod api;
mod bencode;
mod hostile;
mod krpc;
mod props;
mod rawnet;
mod rng;
mod runner;
mod sim;

use props::{RunCtx, Tier};

fn main() {
    let args: Vec<String> = std::env::args().collect();
    let code = match args.get(1).map(|s| s.as_str()) {
        Some("check") => {
            let prop = args.get(2).expect("property id");
            let tier = args
                .iter()
                .position(|a| a == "--tier")
                .and_then(|i| args.get(i + 1))
                .map(|s| Tier::parse(s))
                .or_else(|| std::env::var("VERIF_TIER").ok().map(|s| Tier::parse(&s)))
                .unwrap_or(Tier::Quick);
            runner::check(prop, tier)
        }
        Some("worker") => {
            let prop = &args[2];
            let tier = Tier::parse(&args[3]);
            let base: u64 = args[4].parse().unwrap();
            let start: u64 = args[5].parse().unwrap();
            let count: u64 = args[6].parse().unwrap();
            let threads: usize = args[7].parse().unwrap();
            runner::worker(prop, tier, base, start, count, threads);
            0
        }
        Some("replay") => runner::replay(args.get(2).expect("replay file")),
        Some("one") => {
            // debug: run a single scenario by run seed
            let prop = &args[2];
            let seed: u64 = args[3].parse().unwrap();
            let tier = Tier::parse(args.get(4).map(|s| s.as_str()).unwrap_or("quick"));
            let mut ctx = RunCtx::new(seed, tier);
            ctx.verbose = true;
            if let (Some(b), Some(i)) = (args.get(5), args.get(6)) {
                ctx.base = b.parse().unwrap_or(0);
                ctx.index = i.parse().unwrap_or(0);
            }
            let r = runner::run_one(prop, &ctx);
            println!("{:#?}", r);
            if r.violation.is_some() { 1 } else { 0 }
        }
        Some("list") => {
            for p in props::all() {
                println!("{}", p.id);
            }
            0
        }
        _ => {
            eprintln!("usage: mlsim check <Cxx> [--tier quick|thorough] | replay <file> | one <Cxx> <seed> [tier] | list");
            2
        }
    };
    std::process::exit(code);
}
