//! C05 — no datagram can crash a node or an API caller.
//! Client- and server-mode victims in a small live network, with API calls in flight, receive
//! (1) injected hostile datagrams (structured catalogue, grammar-random, byte-level),
//! (2) corruption of real traffic, (3) Byzantine replies to their own in-flight requests.
//! Afterwards both must still be alive, answer a ping / complete local calls, and no API
//! future may have panicked.

use std::net::SocketAddrV4;

use serde_json::json;

use crate::bencode::{self, Value};
use crate::hostile::{self, Catalogue, MUTATIONS};
use crate::krpc::{self, Item, Krpc, MsgOpts};
use crate::props::common::*;
use crate::props::{PropInfo, Property, Report, RunCtx, Tier};
use crate::rawnet::*;
use crate::rng::Rng;
use crate::sim::*;

fn panic_site(msg: &str) -> String {
    // "... @ /repo/src/common/messages.rs:868" -> "messages.rs:868"
    msg.rsplit('@').next().map(|s| s.trim().rsplit('/').next().unwrap_or("").to_string()).unwrap_or_default()
}

fn run(ctx: &RunCtx) -> Report {
    let mut report = Report::default();
    let mut rng = Rng::new(ctx.seed);
    let net = NetCfg {
        latency_min_us: 500,
        latency_max_us: rng.range(2_000, 60_000),
        corrupt_ppm: if rng.chance(1, 3) { rng.range(20_000, 150_000) as u32 } else { 0 },
        dup_ppm: if rng.chance(1, 4) { 50_000 } else { 0 },
        // replies that arrive late (beyond the 500 ms the RTT estimator starts at) are unexpected too
        slow_ppm: if rng.chance(1, 3) { rng.range(50_000, 400_000) as u32 } else { 0 },
        slow_extra_ms: (300, 1500),
        ..NetCfg::default()
    };
    let sim = Sim::new(ctx.seed, net.clone());
    sim.set_snap_mode(SnapMode::Off);
    let public = rng.chance(1, 3);
    let rawnet = RawNet::new();
    let n_peers = rng.usize(3, 6);
    let mut addrs = vec![];
    let key = krpc::signing_key(rng.bytes(32).try_into().unwrap());
    let pk = key.verifying_key().to_bytes();
    let value = b"an immutable value".to_vec();
    let imm_target = krpc::immutable_target(&value);
    let item = Item::signed(&key, None, 5, b"a mutable value");
    let info_hash = rng.id();
    let t_wall = 1_767_225_600_000_000u64;
    let ann = (pk, t_wall, krpc::sign(&key, &krpc::signed_announce_signable(&info_hash, t_wall)));
    for i in 0..n_peers {
        let ip = if public { pub_ip(&mut rng) } else { priv_ip(30 + i) };
        let addr = SocketAddrV4::new(ip, 6881);
        let mut p = Peer::new(rng.id(), addr);
        p.k = 20;
        p.immutable.insert(imm_target, value.clone());
        p.mutable.insert(item.target(), item.clone());
        p.signed.insert(info_hash, vec![ann]);
        p.peers.insert(info_hash, vec![SocketAddrV4::new(priv_ip(999), 1000)]);
        // scripted peers answer writes with assorted error codes, and some answer slowly
        p.put_reply = match rng.below(5) {
            0 | 1 => PutReply::Ack,
            _ => PutReply::Error(*rng.pick(&[203i64, 205, 206, 301, 302, 999])),
        };
        if rng.chance(1, 3) {
            p.delay = rng.range(300, 1400) * MS;
        }
        rawnet.add(&sim, p);
        addrs.push(addr);
    }
    for i in 0..n_peers {
        rawnet.with_peer(i, |p| p.knows = (0..n_peers).collect());
    }
    // plan sizes
    let barrage = match ctx.tier {
        Tier::Quick => rng.usize(10, 60),
        Tier::Thorough => rng.usize(10, 250),
    };
    let n_byz = rng.usize(0, n_peers - 1);
    let n_calls = rng.usize(2, 8);
    report.elements = barrage + n_byz + n_calls;
    let el_barrage = |i: usize| i;
    let el_byz = |i: usize| barrage + i;
    let el_call = |i: usize| barrage + n_byz + i;

    // 1 run in 6: every scripted peer claims the id the lookup is looking for (distance 0 to the
    // target: the size estimate derived from the responders' ids degenerates), otherwise honest
    let echo_target_ids = rng.chance(1, 6);
    if echo_target_ids {
        report.probe("responders_claiming_the_target_as_id", 1);
    }
    // 1 run in 4: honest peers also list a contact at the unspecified address 0.0.0.0:7777; what is sent
    // there is delivered locally (as Linux does), where a small service answers from a concrete address
    let unspecified_contacts = rng.chance(1, 4);
    if unspecified_contacts {
        for i in 0..n_peers {
            let id = rng.id();
            rawnet.with_peer(i, |p| p.extra_nodes.push((id, SocketAddrV4::new(std::net::Ipv4Addr::UNSPECIFIED, 7777))));
        }
        report.probe("contacts_at_the_unspecified_address", 1);
    }
    // 1 run in 8 (own random stream): *generous* peers - every lookup answer of every peer lists 60..75 further
    // well-formed nodes (random ids, random routable addresses where nobody lives), so that one lookup
    // collects hundreds of candidates
    let mut frng = Rng::new(crate::rng::key(ctx.seed, &[crate::rng::tag("c05-node-flood")]));
    let node_flood = frng.chance(1, 8);
    if node_flood {
        report.probe("node_flood_runs", 1);
    }
    // Byzantine repliers: mutate the honest reply, or answer with something else entirely
    let byz: Vec<usize> = (0..n_byz).filter(|i| ctx.enabled(el_byz(*i))).collect();
    {
        let byz = byz.clone();
        let mut hr = Rng::new(ctx.seed ^ 0xc05);
        rawnet.set_hook(Box::new(move |rctx, sh, idx, from, msg: &Krpc| {
            if !byz.contains(&idx) {
                if node_flood && matches!(msg.query_name(), Some("find_node") | Some("get") | Some("get_peers") | Some("get_signed_peers")) {
                    if let Some((delay, bytes)) = default_reply(sh, idx, rctx.now, from, msg) {
                        if let Ok(mut parsed) = bencode::parse(&bytes) {
                            if let Some(r) = parsed.value.get_mut("r") {
                                let n = hr.usize(60, 75);
                                let mut list: Vec<(krpc::Id, SocketAddrV4)> = vec![];
                                for _ in 0..n {
                                    let ip = std::net::Ipv4Addr::new(hr.range(11, 223) as u8, hr.below(256) as u8, hr.below(256) as u8, hr.range(1, 254) as u8);
                                    list.push((hr.id(), SocketAddrV4::new(ip, hr.range(1024, 65000) as u16)));
                                }
                                // far and near ids alike: some sort behind everything the lookup holds
                                if let Some(t) = msg.target() {
                                    let mut far = t;
                                    for b in far.iter_mut() {
                                        *b = !*b;
                                    }
                                    list[0].0 = far;
                                }
                                r.set("nodes", Value::Bytes(krpc::compact_nodes(&list)));
                                let me = rctx.me;
                                rctx.send_after(delay, me, from, parsed.value.encode());
                                return HookResult::Handled;
                            }
                        }
                    }
                }
                if echo_target_ids {
                    if let (Some(t), Some((delay, bytes))) = (msg.target(), default_reply(sh, idx, rctx.now, from, msg)) {
                        if let Ok(mut parsed) = bencode::parse(&bytes) {
                            if let Some(r) = parsed.value.get_mut("r") {
                                r.set("id", Value::bytes(&t));
                                let me = rctx.me;
                                rctx.send_after(delay, me, from, parsed.value.encode());
                                return HookResult::Handled;
                            }
                        }
                    }
                }
                return HookResult::Default;
            }
            let q = msg.query_name().unwrap_or("").to_string();
            let honest = default_reply(sh, idx, rctx.now, from, msg).map(|r| r.1);
            let opts = opts_for(&sh.peers[idx], from);
            let is_put = matches!(q.as_str(), "put" | "announce_peer" | "announce_signed_peer");
            let roll = hr.below(10);
            let reply: Vec<u8> = if is_put && roll < 6 {
                // error codes, including 301/302 for writes that cannot conflict
                let code = *hr.pick(&[301i64, 302, 301, 302, 203, 205, 206, 207, 201, 0, -1, 2147483648, 999]);
                // half of them with a description that is long, multi-byte around typical cut points, or not UTF-8
                if hr.chance(1, 2) {
                    krpc::error_bytes(&msg.tid, code, &crate::hostile::bomb_text(&mut hr), &opts)
                } else {
                    krpc::error(&msg.tid, code, "scripted", &opts)
                }
            } else if !is_put && roll == 9 && hr.chance(1, 2) {
                krpc::error_bytes(&msg.tid, *hr.pick(&[201i64, 202, 203, 204]), &crate::hostile::bomb_text(&mut hr), &opts)
            } else if roll < 7 {
                // a different kind of reply with the right tid
                let id = sh.peers[idx].id;
                let r = match hr.below(10) {
                    // well-formed replies of ANOTHER kind than the request asked for (accepted by the codec)
                    5 => Value::dict(vec![("id", Value::bytes(&id)), ("token", Value::str("t")), ("values", Value::List(vec![Value::Bytes(vec![10, 1, 2, 3, 0x1a, 0xe1])]))]),
                    6 => Value::dict(vec![("id", Value::bytes(&id)), ("token", Value::str("t")), ("nodes", Value::Bytes(krpc::compact_nodes(&[(hr.id(), SocketAddrV4::new(priv_ip(7700), 6881))]))), ("v", Value::str("some immutable value"))]),
                    7 => {
                        let k = krpc::signing_key([hr.below(256) as u8; 32]);
                        let item = krpc::Item::signed(&k, None, hr.range(0, 9) as i64, b"wrong-kind item");
                        Value::dict(vec![("id", Value::bytes(&id)), ("token", Value::str("t")), ("seq", Value::Int(item.seq)), ("v", Value::bytes(&item.v)), ("k", Value::bytes(&item.k)), ("sig", Value::bytes(&item.sig))])
                    }
                    8 => {
                        let k = krpc::signing_key([hr.below(256) as u8; 32]);
                        let t = 1_767_225_600_000_000u64;
                        let target = msg.target().unwrap_or([0; 20]);
                        let sig = krpc::sign(&k, &krpc::signed_announce_signable(&target, t));
                        let mut b = k.verifying_key().to_bytes().to_vec();
                        b.extend_from_slice(&t.to_be_bytes());
                        b.extend_from_slice(&sig);
                        Value::dict(vec![("id", Value::bytes(&id)), ("token", Value::str("t")), ("peers", Value::List(vec![Value::Bytes(b)]))])
                    }
                    9 => Value::dict(vec![("id", Value::bytes(&id)), ("nodes", Value::Bytes(krpc::compact_nodes(&[(hr.id(), SocketAddrV4::new(priv_ip(7701), 6881)), (hr.id(), SocketAddrV4::new(priv_ip(7702), 6881))])))]),
                    0 => Value::dict(vec![("id", Value::bytes(&id))]),
                    1 => Value::dict(vec![("id", Value::bytes(&id)), ("nodes", Value::Bytes(vec![1; 27]))]),
                    2 => Value::dict(vec![("id", Value::bytes(&id)), ("token", Value::str("t")), ("values", Value::List(vec![Value::Bytes(vec![1; 5])]))]),
                    3 => Value::dict(vec![("id", Value::bytes(&id)), ("token", Value::str("t")), ("peers", Value::List(vec![Value::Bytes(vec![]), Value::Bytes(vec![1; 208])]))]),
                    _ => hostile::random_bencode(&mut hr, 3),
                };
                krpc::response(&msg.tid, r, &opts)
            } else if let Some(h) = honest {
                match bencode::parse(&h) {
                    Ok(parsed) => {
                        let ps = hostile::paths(&parsed.value);
                        let p = ps[hr.usize(0, ps.len() - 1)].clone();
                        // never break the tid or the type marker: the reply must be *accepted*
                        if p.0.is_none() && (p.1 == "t" || p.1 == "y") {
                            h
                        } else {
                            hostile::mutate(&parsed.value, &p, MUTATIONS[hr.usize(0, MUTATIONS.len() - 1)]).encode()
                        }
                    }
                    Err(_) => h,
                }
            } else {
                return HookResult::Handled;
            };
            let me = rctx.me;
            rctx.send_after(0, me, from, reply);
            HookResult::Handled
        }));
    }

    // 1 run in 12 (own random stream): a *slow consumer* - 20..28 further honest peers hold peers for one more info
    // hash, and the client victim's application opens a get_peers stream on it which it does not read for 3..6 s
    // while the barrage and the other calls go on
    let mut hrng = Rng::new(crate::rng::key(ctx.seed, &[crate::rng::tag("c05-held-stream")]));
    let held_hash: [u8; 20] = hrng.id();
    let held_stream = hrng.chance(1, 12);
    let mut addrs = addrs;
    if held_stream {
        let base = rawnet.len();
        let m = hrng.usize(20, 28);
        for j in 0..m {
            let a = SocketAddrV4::new(if public { pub_ip(&mut hrng) } else { priv_ip(600 + j) }, 6881);
            let mut p = Peer::new(hrng.id(), a);
            p.k = 8;
            p.delay = hrng.range(0, 100) * MS;
            p.peers.insert(held_hash, vec![SocketAddrV4::new(priv_ip(9000 + j), 7)]);
            p.knows = (base..base + m).collect();
            rawnet.add(&sim, p);
            addrs.push(a);
        }
        report.probe("held_stream_runs", 1);
    }
    // victims
    let server_ip = if public { pub_ip(&mut rng) } else { priv_ip(1) };
    let client_ip = if public { pub_ip(&mut rng) } else { priv_ip(2) };
    let mut sspec = NodeSpec::new(server_ip, 6881).server();
    if rng.chance(2, 3) {
        sspec.bootstrap = addrs.iter().map(|a| a.to_string()).collect();
    }
    let server = sim.add_node(sspec);
    let mut cspec = NodeSpec::new(client_ip, 6881);
    cspec.bootstrap = addrs.iter().map(|a| a.to_string()).collect();
    cspec.bootstrap.push(sim.node_addr(server).to_string());
    let client = sim.add_node(cspec);
    let victims = [server, client];
    if unspecified_contacts {
        // the local services behind 0.0.0.0:7777 of each victim
        for ip in [server_ip, client_ip] {
            let mut p = Peer::new(rng.id(), SocketAddrV4::new(ip, 7777));
            p.k = 8;
            p.knows = (0..n_peers).collect();
            rawnet.add(&sim, p);
        }
    }
    sim.run_for(2 * SEC);

    // 1 run in 4 (own random stream): a peer whose clock runs 1..44 s ahead of the server's announces itself with a
    // validly signed announcement (accepted: within the 45 s window) and the info hash is read at once, and again
    // during the barrage - before the server's clock has passed the announcement's timestamp
    let mut frng2 = Rng::new(crate::rng::key(ctx.seed, &[crate::rng::tag("c05-future-announce")]));
    let future_hash: [u8; 20] = frng2.id();
    let future_announce = frng2.chance(1, 4);
    if future_announce {
        let w = SocketAddrV4::new(if public { pub_ip(&mut frng2) } else { priv_ip(480) }, 7480);
        let (_, wlog) = logging_raw(&sim, w);
        let srv = sim.node_addr(server);
        let wid = frng2.id();
        sim.raw_send(w, srv, krpc::query(&krpc::tid_bytes(48_000), "get_signed_peers", krpc::get_peers_args(&wid, &future_hash), &krpc::MsgOpts::default()));
        sim.run_for(400 * MS);
        let token = wlog.borrow().iter().rev().filter_map(|(_, _, b)| Krpc::parse(b)).filter_map(|k| k.token().map(|t| t.to_vec())).next();
        if let Some(token) = token {
            let k = krpc::signing_key(frng2.bytes(32).try_into().unwrap());
            let ahead = frng2.range(1, 44) * 1_000_000;
            let t = sim.host_wall_us(server) + ahead;
            let sig = krpc::sign(&k, &krpc::signed_announce_signable(&future_hash, t));
            sim.raw_send(w, srv, krpc::query(&krpc::tid_bytes(48_001), "announce_signed_peer", krpc::announce_signed_peer_args(&wid, &future_hash, &k.verifying_key().to_bytes(), &sig, t as i64, &token), &krpc::MsgOpts::default()));
            sim.run_for(frng2.range(10, 300) * MS);
            sim.raw_send(w, srv, krpc::query(&krpc::tid_bytes(48_002), "get_signed_peers", krpc::get_peers_args(&wid, &future_hash), &krpc::MsgOpts::default()));
            sim.run_for(200 * MS);
            let served = wlog.borrow().iter().any(|(_, _, b)| Krpc::parse(b).map(|k| k.tid_u32() == Some(48_002) && k.body.get("peers").is_some()).unwrap_or(false));
            report.probe("future_dated_signed_announce_runs", 1);
            if served {
                report.probe("future_dated_signed_announce_served_before_its_timestamp", 1);
            }
        }
    }
    // API calls in flight during the barrage
    let t_start = sim.now();
    let span = rng.range(2, 20) * SEC;
    if future_announce {
        let c = victims[1];
        for _ in 0..frng2.usize(1, 3) {
            let at = t_start + frng2.range(0, 20_000) * MS;
            sim.at(at, move |sim| {
                let _ = sim.get_signed_peers(c, future_hash);
            });
        }
    }
    if held_stream {
        let c = victims[1];
        let at = t_start + hrng.range(0, 1500) * MS;
        let release = at + hrng.range(3000, 6000) * MS;
        sim.at(at, move |sim| {
            let _ = sim.get_peers_held(c, held_hash, release);
        });
    }
    let mut plan: Vec<String> = vec![format!(
        "victims server={} client={} peers={n_peers} byzantine={byz:?} corrupt_ppm={} dup_ppm={}",
        sim.node_addr(server),
        sim.node_addr(client),
        net.corrupt_ppm,
        net.dup_ppm
    )];
    let ops: std::rc::Rc<std::cell::RefCell<Vec<(String, OpId)>>> = Default::default();
    for i in 0..n_calls {
        let mut r = Rng::new(crate::rng::key(ctx.seed, &[crate::rng::tag("call"), i as u64]));
        if !ctx.enabled(el_call(i)) {
            continue;
        }
        let at = t_start + r.range(0, span / MS) * MS;
        let host = victims[r.usize(0, 1)];
        let kind = r.below(11);
        let ops = ops.clone();
        let (value, item, key_seed) = (value.clone(), item.clone(), r.bytes(32));
        let label = ["get_immutable", "get_mutable", "get_peers", "get_signed_peers", "find_node", "put_immutable", "put_mutable", "announce_peer", "announce_signed_peer", "most_recent", "bootstrapped"][kind as usize];
        plan.push(format!("call[{i}] t={:.3}s host{host} {label}", at as f64 / SEC as f64));
        let mkey = key.clone();
        sim.at(at, move |sim| {
            let op = match kind {
                0 => sim.get_immutable(host, imm_target),
                1 => sim.get_mutable(host, pk, None, None),
                2 => sim.get_peers(host, info_hash),
                3 => sim.get_signed_peers(host, info_hash),
                4 => sim.find_node(host, [0x55; 20]),
                5 => sim.put_immutable(host, value),
                6 => {
                    let mi = dht::MutableItem::new(&mkey, b"newer value", item.seq + 1, None);
                    sim.put_mutable(host, mi, None)
                }
                7 => sim.announce_peer(host, info_hash, Some(4242)),
                8 => sim.announce_signed_peer(host, info_hash, key_seed.try_into().unwrap()),
                9 => sim.get_mutable_most_recent(host, pk, None),
                _ => sim.bootstrapped(host),
            };
            ops.borrow_mut().push((label.to_string(), op));
        });
    }

    // the barrage
    let cat_tid = krpc::tid_bytes(rng.range(0, 50) as u32);
    let catalogue = Catalogue::new(&mut rng.fork("cat"), &cat_tid);
    report.probe("catalogue_size", catalogue.len() as u64);
    // walk the structured catalogue across runs: this run covers a seed-dependent window
    let window = (ctx.seed as usize) % catalogue.len();
    let mut kinds: std::collections::BTreeMap<&'static str, u64> = Default::default();
    for i in 0..barrage {
        let mut r = Rng::new(crate::rng::key(ctx.seed, &[crate::rng::tag("dgram"), i as u64]));
        if !ctx.enabled(el_barrage(i)) {
            continue;
        }
        let at = t_start + r.range(0, span / MS) * MS;
        let victim = victims[r.usize(0, 1)];
        let dst = sim.node_addr(victim);
        let src = match r.below(6) {
            0 => SocketAddrV4::new(pub_ip(&mut r), 0),
            1 => addrs[r.usize(0, addrs.len() - 1)],
            2 => SocketAddrV4::new(*dst.ip(), dst.port()),
            _ => SocketAddrV4::new(pub_ip(&mut r), r.range(1, 65535) as u16),
        };
        let (label, bytes): (String, Vec<u8>) = match r.below(10) {
            0..=3 => {
                *kinds.entry("catalogue").or_insert(0) += 1;
                catalogue.get(window + i)
            }
            4 => {
                *kinds.entry("catalogue_pair").or_insert(0) += 1;
                catalogue.pair(&mut r)
            }
            5 => {
                *kinds.entry("grammar_random").or_insert(0) += 1;
                ("grammar-random".into(), hostile::random_message(&mut r))
            }
            6 => {
                *kinds.entry("template").or_insert(0) += 1;
                ("template".into(), hostile::template(&mut r))
            }
            7 | 8 => {
                *kinds.entry("byte_mutation").or_insert(0) += 1;
                let base = catalogue.bases[r.usize(0, catalogue.bases.len() - 1)].1.encode();
                ("byte-mutation".into(), hostile::mutate_bytes(&mut r, &base))
            }
            _ => {
                *kinds.entry("random_bytes").or_insert(0) += 1;
                let n = *r.pick(&[0usize, 1, 14, 15, 16, 100, 2048]);
                let mut b = r.bytes(n);
                if !b.is_empty() && r.chance(1, 2) {
                    b[0] = b'd';
                }
                ("random-bytes".into(), b)
            }
        };
        plan.push(format!("dgram[{i}] t={:.3}s {src} -> {dst} {label} ({} bytes) {}", at as f64 / SEC as f64, bytes.len(), krpc::hex(&bytes[..bytes.len().min(48)])));
        sim.at(at, move |sim| sim.raw_send(src, dst, bytes));
    }
    for (k, v) in kinds {
        report.probe(&format!("injected_{k}"), v);
    }
    // 1 run in 3: a well-formed multi-step history against the server-mode victim - one sender obtains
    // a token and announces N peers (distinct requester ids) for one info hash, reading the list back
    // after every announce; N sits around the sizes at which the store switches behaviour (20)
    if rng.chance(1, 3) {
        let storm_src = SocketAddrV4::new(priv_ip(4100), 4100);
        let (_, slog) = logging_raw(&sim, storm_src);
        let ih = rng.id();
        // (also long storms: a store may size internal buffers on the first read and outgrow them later)
        let n = match rng.below(6) {
            0..=2 => *rng.pick(&[18usize, 19, 20, 21, 22]),
            3 => rng.usize(1, 45),
            4 => rng.usize(60, 130),
            _ => rng.usize(130, 260),
        };
        // reads after every announce, or only every k-th (so that the list grows between two reads)
        let read_every = *rng.pick(&[1usize, 1, 2, 7, 20, 33]);
        let t1 = t_start + rng.range(0, span / MS / 2 + 1) * MS;
        let srv = sim.node_addr(server);
        let my_id = rng.id();
        sim.at(t1, move |sim| sim.raw_send(storm_src, srv, krpc::query(&krpc::tid_bytes(9000), "get_peers", krpc::get_peers_args(&my_id, &ih), &MsgOpts::default())));
        let ids: Vec<krpc::Id> = (0..n).map(|_| rng.id()).collect();
        for (j, rid) in ids.into_iter().enumerate() {
            let slog = slog.clone();
            let at = t1 + 500 * MS + j as u64 * if n > 60 { 8 } else { 30 } * MS;
            sim.at(at, move |sim| {
                let token = slog.borrow().iter().filter_map(|(_, _, b)| Krpc::parse(b)).filter_map(|k| k.token().map(|t| t.to_vec())).next_back();
                if let Some(token) = token {
                    sim.raw_send(storm_src, srv, krpc::query(&krpc::tid_bytes(9100 + j as u32), "announce_peer", krpc::announce_peer_args(&rid, &ih, 1000 + j as u16, None, &token), &MsgOpts::default()));
                    if j % read_every == read_every - 1 || j + 1 == n {
                        sim.raw_send(storm_src, srv, krpc::query(&krpc::tid_bytes(9500 + j as u32), "get_peers", krpc::get_peers_args(&rid, &ih), &MsgOpts::default()));
                    }
                }
            });
        }
        plan.push(format!("announce storm: {n} peers for one info hash from {storm_src} starting t={:.3}s", t1 as f64 / SEC as f64));
        report.probe("announce_storms", 1);
        report.probe("announce_storm_peers", n as u64);
    }
    sim.run_until(t_start + span + 2 * SEC);
    let ids: Vec<OpId> = ops.borrow().iter().map(|o| o.1).collect();
    let in_flight_done = sim.run_ops(&ids, sim.now() + 60 * SEC);

    // ---- verdicts
    for v in victims {
        if let Some(d) = sim.died(v) {
            let site = panic_site(&d);
            report.violate("actor-panic", &format!("actor-panicked@{site}"), format!("{} victim's event loop died: {d}", if v == server { "server-mode" } else { "client-mode" }));
        }
    }
    for (label, id) in ops.borrow().iter() {
        if let Some(p) = sim.with_op(*id, |o| o.panicked.clone()) {
            if p.contains("actor thread unexpectedly shutdown") || p.contains("actor thrread unexpectedly shutdown") || p.contains("Query was dropped") {
                // consequence of a dead actor, reported above
                report.violate("actor-panic", "actor-died-under-caller", format!("API call {label} failed because the actor was gone: {p}"));
            } else {
                let site = panic_site(&p);
                report.violate("api-panic", &format!("api-panicked@{site}"), format!("API call {label} panicked in the caller: {p}"));
            }
        }
    }
    if report.violation.is_none() && !in_flight_done {
        // hanging calls are C06's subject; here only note them
        report.probe("in_flight_call_unfinished", 1);
    }
    if report.violation.is_none() {
        // liveness probes after the barrage (Byzantine peers keep misbehaving)
        let prober = SocketAddrV4::new(priv_ip(4000), 4000);
        let (_, plog) = logging_raw(&sim, prober);
        sim.raw_send(prober, sim.node_addr(server), krpc::query(&krpc::tid_bytes(7), "ping", krpc::ping_args(&[9u8; 20]), &MsgOpts::default()));
        let p1 = sim.find_node(server, [0x11; 20]);
        let p2 = sim.put_immutable(server, b"after the barrage".to_vec());
        let p3 = sim.find_node(client, [0x22; 20]);
        let p4 = sim.get_immutable(client, imm_target);
        let done = sim.run_ops(&[p1, p2, p3, p4], sim.now() + 120 * SEC);
        for v in victims {
            if let Some(d) = sim.died(v) {
                report.violate("actor-panic", &format!("actor-panicked@{}", panic_site(&d)), format!("victim died during the liveness probe: {d}"));
            }
        }
        for (name, id) in [("find_node(server)", p1), ("put_immutable(server)", p2), ("find_node(client)", p3), ("get_immutable(client)", p4)] {
            if let Some(p) = sim.with_op(id, |o| o.panicked.clone()) {
                report.violate("api-panic", &format!("api-panicked@{}", panic_site(&p)), format!("probe call {name} panicked: {p}"));
            }
        }
        let ponged = plog.borrow().iter().any(|(_, _, b)| Krpc::parse(b).map(|k| k.is_response() && k.tid_u32() == Some(7)).unwrap_or(false));
        let ping_corrupted = sim.with_trace(|t| t.iter().any(|d| (d.src == prober || d.dst == prober) && (d.corrupted || d.fate != Fate::Delivered)));
        if !ponged && !ping_corrupted {
            report.violate("liveness", "no-ping-reply-after-barrage", "the server-mode victim did not answer a ping after the barrage".into());
        }
        if !done && report.violation.is_none() {
            report.violate("liveness", "probe-call-did-not-finish", "a local API call issued after the barrage did not finish within 120 s".into());
        }
        report.probe("liveness_probes", 1);
        // 1 run in 12 (own random stream): an *ageing tail* - one or two of the peers that answered so far fall
        // silent for good; 21..26 virtual minutes later (they have gone stale and been dropped from the tables,
        // possibly leaving a bucket empty) the victims must still walk their tables, answer and serve calls
        let mut arng = Rng::new(crate::rng::key(ctx.seed, &[crate::rng::tag("c05-ageing-tail")]));
        if report.violation.is_none() && arng.chance(1, 12) {
            for _ in 0..arng.usize(1, 2) {
                let i = arng.usize(0, n_peers - 1);
                rawnet.with_peer(i, |p| p.silent = true);
            }
            sim.run_for(arng.range(21 * 60, 26 * 60) * SEC);
            sim.raw_send(prober, sim.node_addr(server), krpc::query(&krpc::tid_bytes(8), "ping", krpc::ping_args(&[9u8; 20]), &MsgOpts::default()));
            let q1 = sim.find_node(server, [0x33; 20]);
            let q2 = sim.get_peers(client, info_hash);
            let q3 = sim.bootstrapped(client);
            let done = sim.run_ops(&[q1, q2, q3], sim.now() + 120 * SEC);
            for v in victims {
                if let Some(d) = sim.died(v) {
                    report.violate("actor-panic", &format!("actor-panicked@{}", panic_site(&d)), format!("victim died {} after some of its peers went silent: {d}", "20-odd minutes"));
                }
            }
            for (name, id) in [("find_node(server)", q1), ("get_peers(client)", q2), ("bootstrapped(client)", q3)] {
                if let Some(p) = sim.with_op(id, |o| o.panicked.clone()) {
                    report.violate("api-panic", &format!("api-panicked@{}", panic_site(&p)), format!("call {name} after the ageing tail panicked: {p}"));
                }
            }
            let ponged = plog.borrow().iter().any(|(_, _, b)| Krpc::parse(b).map(|k| k.is_response() && k.tid_u32() == Some(8)).unwrap_or(false));
            let ping_corrupted = sim.with_trace(|t| t.iter().any(|d| (d.src == prober || d.dst == prober) && (d.corrupted || d.fate != Fate::Delivered)));
            if !ponged && !ping_corrupted && report.violation.is_none() {
                report.violate("liveness", "no-ping-reply-after-ageing", "the server-mode victim did not answer a ping after the ageing tail".into());
            }
            if !done && report.violation.is_none() {
                report.violate("liveness", "probe-call-did-not-finish", "a local API call issued after the ageing tail did not finish within 120 s".into());
            }
            report.probe("ageing_tail_runs", 1);
        }
    }
    let delivered_hostile = sim.with_trace(|t| t.iter().filter(|d| d.from_host.is_none() && d.to_host.is_some() && d.consumed.is_some()).count());
    report.probe("hostile_or_scripted_datagrams_consumed", delivered_hostile as u64);
    report.nontrivial = delivered_hostile > 0;
    report.plan_dump = Some(plan.join("\n"));
    report.sample = Some(json!({"plan_head": plan.iter().take(8).collect::<Vec<_>>(), "barrage": barrage, "byzantine": byz, "calls": n_calls}));
    finish(&sim, report)
}

pub fn property() -> Property {
    Property {
        id: "C05",
        run,
        budget: |t| match t {
            Tier::Quick => 12000,
            Tier::Thorough => 300_000,
        },
        wall_cap_s: |t| match t {
            Tier::Quick => 70.0,
            Tier::Thorough => 1500.0,
        },
        info: || PropInfo {
            floors: vec![],
            rule: "one run = a server-mode and a client-mode victim in a live network of 3..6 scripted peers, 2..8 API calls of 11 kinds in flight, a barrage of 10..60 (thorough ..250) injected datagrams (structured catalogue: 18 message kinds x every field x 18 type/length confusions, walked window by window across runs; pairs; grammar-random; byte-level templates; byte mutations; random bytes) from arbitrary/spoofed sources incl. port 0, optional corruption/duplication of real traffic, and 0..5 Byzantine peers answering the victims' own requests with mutated or wrong-kind replies and error codes (incl. 301/302 to non-mutable writes). Verdict: no actor panic, no API-future panic, ping + local calls work afterwards. Non-trivial = hostile datagrams were consumed by a victim; distinct = delivery-order hash".into(),
            assumptions: vec!["a process abort (stack overflow, double panic) is detected by the parent runner as a dead worker".into()],
        },
    }
}
