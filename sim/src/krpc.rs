//! Independent KRPC view, builders, and BEP42/BEP44 helpers, written from the BEPs.

use crate::bencode::{self, Value};
use ed25519_dalek::{Signer, SigningKey, Verifier, VerifyingKey};
use std::net::{Ipv4Addr, SocketAddrV4};

pub type Id = [u8; 20];

pub const VERSION_RS6: [u8; 4] = [82, 83, 0, 6];

// ---------------------------------------------------------------- hashes

pub fn sha1(data: &[u8]) -> Id {
    let mut h = sha1_smol::Sha1::new();
    h.update(data);
    h.digest().bytes()
}

/// BEP44 immutable target: SHA1 of the bencoded value (a byte string here).
pub fn immutable_target(v: &[u8]) -> Id {
    let mut enc = v.len().to_string().into_bytes();
    enc.push(b':');
    enc.extend_from_slice(v);
    sha1(&enc)
}

/// BEP44 mutable target: SHA1(k || salt).
pub fn mutable_target(k: &[u8; 32], salt: Option<&[u8]>) -> Id {
    let mut enc = k.to_vec();
    if let Some(s) = salt {
        enc.extend_from_slice(s);
    }
    sha1(&enc)
}

/// BEP44 signable buffer.
pub fn mutable_signable(seq: i64, v: &[u8], salt: Option<&[u8]>) -> Vec<u8> {
    let mut out = Vec::new();
    if let Some(s) = salt {
        // BEP44: the salt key is only present when the salt is non-empty; the crate
        // includes it whenever a salt is given, and so do we when one is given.
        out.extend_from_slice(format!("4:salt{}:", s.len()).as_bytes());
        out.extend_from_slice(s);
    }
    out.extend_from_slice(format!("3:seqi{}e1:v{}:", seq, v.len()).as_bytes());
    out.extend_from_slice(v);
    out
}

pub fn signed_announce_signable(info_hash: &Id, timestamp: u64) -> Vec<u8> {
    let mut out = info_hash.to_vec();
    out.extend_from_slice(&timestamp.to_be_bytes());
    out
}

pub fn signing_key(seed: [u8; 32]) -> SigningKey {
    SigningKey::from_bytes(&seed)
}

pub fn sign(key: &SigningKey, msg: &[u8]) -> [u8; 64] {
    key.sign(msg).to_bytes()
}

pub fn verify(k: &[u8; 32], msg: &[u8], sig: &[u8; 64]) -> bool {
    let Ok(vk) = VerifyingKey::from_bytes(k) else {
        return false;
    };
    let sig = ed25519_dalek::Signature::from_bytes(sig);
    vk.verify(msg, &sig).is_ok()
}

/// Bitwise CRC32C (Castagnoli), reflected, as BEP42 specifies.
pub fn crc32c(data: &[u8]) -> u32 {
    let mut crc: u32 = !0;
    for &b in data {
        crc ^= b as u32;
        for _ in 0..8 {
            crc = if crc & 1 != 0 {
                (crc >> 1) ^ 0x82F63B78
            } else {
                crc >> 1
            };
        }
    }
    !crc
}

pub fn bep42_exempt(ip: Ipv4Addr) -> bool {
    let o = ip.octets();
    o[0] == 10
        || (o[0] == 172 && (16..=31).contains(&o[1]))
        || (o[0] == 192 && o[1] == 168)
        || (o[0] == 169 && o[1] == 254)
        || o[0] == 127
}

pub fn bep42_prefix(ip: Ipv4Addr, r: u8) -> [u8; 3] {
    let ip = u32::from_be_bytes(ip.octets());
    let v = (ip & 0x030f3fff) | ((r as u32 & 0x7) << 29);
    let c = crc32c(&v.to_be_bytes()).to_be_bytes();
    [c[0], c[1], c[2] & 0xf8]
}

pub fn bep42_secure(id: &Id, ip: Ipv4Addr) -> bool {
    if bep42_exempt(ip) {
        return true;
    }
    let p = bep42_prefix(ip, id[19]);
    id[0] == p[0] && id[1] == p[1] && (id[2] & 0xf8) == p[2]
}

/// Make a BEP42-valid id for `ip` from 20 random bytes.
pub fn bep42_id(ip: Ipv4Addr, mut rnd: Id) -> Id {
    let p = bep42_prefix(ip, rnd[19]);
    rnd[0] = p[0];
    rnd[1] = p[1];
    rnd[2] = p[2] | (rnd[2] & 0x7);
    rnd
}

pub fn xor(a: &Id, b: &Id) -> Id {
    let mut out = [0u8; 20];
    for i in 0..20 {
        out[i] = a[i] ^ b[i];
    }
    out
}

/// 160 - common prefix length
pub fn distance(a: &Id, b: &Id) -> u8 {
    let x = xor(a, b);
    for (i, byte) in x.iter().enumerate() {
        if *byte != 0 {
            return 160 - (i as u32 * 8 + byte.leading_zeros()) as u8;
        }
    }
    0
}

pub fn hex(b: &[u8]) -> String {
    b.iter().map(|x| format!("{x:02x}")).collect()
}

// ---------------------------------------------------------------- compact encodings

pub fn compact_addr(a: &SocketAddrV4) -> Vec<u8> {
    let mut out = a.ip().octets().to_vec();
    out.extend_from_slice(&a.port().to_be_bytes());
    out
}

pub fn parse_compact_addr(b: &[u8]) -> Option<SocketAddrV4> {
    if b.len() != 6 {
        return None;
    }
    Some(SocketAddrV4::new(
        Ipv4Addr::new(b[0], b[1], b[2], b[3]),
        u16::from_be_bytes([b[4], b[5]]),
    ))
}

pub fn compact_nodes(nodes: &[(Id, SocketAddrV4)]) -> Vec<u8> {
    let mut out = Vec::with_capacity(nodes.len() * 26);
    for (id, a) in nodes {
        out.extend_from_slice(id);
        out.extend_from_slice(&compact_addr(a));
    }
    out
}

pub fn parse_compact_nodes(b: &[u8]) -> Option<Vec<(Id, SocketAddrV4)>> {
    if b.len() % 26 != 0 {
        return None;
    }
    Some(
        b.chunks(26)
            .map(|c| {
                let mut id = [0u8; 20];
                id.copy_from_slice(&c[..20]);
                (id, parse_compact_addr(&c[20..]).unwrap())
            })
            .collect(),
    )
}

// ---------------------------------------------------------------- view

#[derive(Clone, Debug, PartialEq)]
pub enum Kind {
    Query(String),
    Response,
    Error(i64, String),
}

#[derive(Clone, Debug)]
pub struct Krpc {
    pub tid: Vec<u8>,
    pub kind: Kind,
    /// `a` for queries, `r` for responses
    pub body: Value,
    pub ro: bool,
    pub version: Option<Vec<u8>>,
    pub ip: Option<SocketAddrV4>,
    pub canonical: bool,
}

impl Krpc {
    pub fn parse(bytes: &[u8]) -> Option<Krpc> {
        let parsed = bencode::parse(bytes).ok()?;
        let top = parsed.value;
        let tid = top.get("t")?.as_bytes()?.to_vec();
        let y = top.get("y")?.as_bytes()?;
        let (kind, body) = match y {
            b"q" => (
                Kind::Query(String::from_utf8_lossy(top.get("q")?.as_bytes()?).to_string()),
                top.get("a")?.clone(),
            ),
            b"r" => (Kind::Response, top.get("r")?.clone()),
            b"e" => {
                let l = top.get("e")?.as_list()?;
                (
                    Kind::Error(
                        l.first()?.as_int()?,
                        String::from_utf8_lossy(l.get(1)?.as_bytes()?).to_string(),
                    ),
                    Value::Dict(vec![]),
                )
            }
            _ => return None,
        };
        Some(Krpc {
            tid,
            kind,
            body,
            ro: top.get("ro").and_then(|v| v.as_int()).unwrap_or(0) != 0,
            version: top.get("v").and_then(|v| v.as_bytes()).map(|b| b.to_vec()),
            ip: top
                .get("ip")
                .and_then(|v| v.as_bytes())
                .and_then(parse_compact_addr),
            canonical: parsed.canonical,
        })
    }

    pub fn tid_u32(&self) -> Option<u32> {
        match self.tid.as_slice() {
            [a, b] => Some(u16::from_be_bytes([*a, *b]) as u32),
            [a, b, c, d] => Some(u32::from_be_bytes([*a, *b, *c, *d])),
            _ => None,
        }
    }
    pub fn is_query(&self) -> bool {
        matches!(self.kind, Kind::Query(_))
    }
    pub fn query_name(&self) -> Option<&str> {
        match &self.kind {
            Kind::Query(q) => Some(q),
            _ => None,
        }
    }
    pub fn is_response(&self) -> bool {
        matches!(self.kind, Kind::Response)
    }
    pub fn error_code(&self) -> Option<i64> {
        match &self.kind {
            Kind::Error(c, _) => Some(*c),
            _ => None,
        }
    }
    pub fn bytes_field(&self, name: &str) -> Option<&[u8]> {
        self.body.get(name).and_then(|v| v.as_bytes())
    }
    pub fn int_field(&self, name: &str) -> Option<i64> {
        self.body.get(name).and_then(|v| v.as_int())
    }
    pub fn id_field(&self, name: &str) -> Option<Id> {
        let b = self.bytes_field(name)?;
        if b.len() != 20 {
            return None;
        }
        let mut id = [0u8; 20];
        id.copy_from_slice(b);
        Some(id)
    }
    /// sender id (`a.id` / `r.id`)
    pub fn id(&self) -> Option<Id> {
        self.id_field("id")
    }
    /// Lookup target of a query (`target` or `info_hash`).
    pub fn target(&self) -> Option<Id> {
        self.id_field("target").or_else(|| self.id_field("info_hash"))
    }
    pub fn nodes(&self) -> Option<Vec<(Id, SocketAddrV4)>> {
        parse_compact_nodes(self.bytes_field("nodes")?)
    }
    pub fn token(&self) -> Option<&[u8]> {
        self.bytes_field("token")
    }
    pub fn values(&self) -> Option<Vec<SocketAddrV4>> {
        let l = self.body.get("values")?.as_list()?;
        l.iter()
            .map(|v| v.as_bytes().and_then(parse_compact_addr))
            .collect()
    }
    /// Signed peers: (k, t, sig)
    pub fn signed_peers(&self) -> Option<Vec<([u8; 32], u64, [u8; 64])>> {
        let l = self.body.get("peers")?.as_list()?;
        l.iter()
            .map(|v| {
                let b = v.as_bytes()?;
                if b.len() != 104 {
                    return None;
                }
                let mut k = [0u8; 32];
                k.copy_from_slice(&b[..32]);
                let mut t = [0u8; 8];
                t.copy_from_slice(&b[32..40]);
                let mut s = [0u8; 64];
                s.copy_from_slice(&b[40..]);
                Some((k, u64::from_be_bytes(t), s))
            })
            .collect()
    }
    /// Short label for traces.
    pub fn label(&self) -> String {
        match &self.kind {
            Kind::Query(q) => format!("q:{q}"),
            Kind::Response => {
                let mut s = String::from("r");
                for k in ["token", "nodes", "values", "peers", "v", "k", "seq"] {
                    if self.body.get(k).is_some() {
                        s.push(':');
                        s.push_str(k);
                    }
                }
                s
            }
            Kind::Error(c, _) => format!("e:{c}"),
        }
    }
}

// ---------------------------------------------------------------- builders

pub fn tid_bytes(tid: u32) -> Vec<u8> {
    tid.to_be_bytes().to_vec()
}

pub struct MsgOpts {
    pub version: Option<Vec<u8>>,
    pub ro: Option<i64>,
    pub ip: Option<SocketAddrV4>,
}

impl Default for MsgOpts {
    fn default() -> Self {
        MsgOpts {
            version: Some(VERSION_RS6.to_vec()),
            ro: None,
            ip: None,
        }
    }
}

fn envelope(tid: &[u8], mut items: Vec<(&str, Value)>, opts: &MsgOpts) -> Vec<u8> {
    items.push(("t", Value::bytes(tid)));
    if let Some(v) = &opts.version {
        items.push(("v", Value::bytes(v)));
    }
    if let Some(ro) = opts.ro {
        items.push(("ro", Value::Int(ro)));
    }
    if let Some(ip) = &opts.ip {
        items.push(("ip", Value::Bytes(compact_addr(ip))));
    }
    Value::dict(items).encode()
}

pub fn query(tid: &[u8], name: &str, args: Value, opts: &MsgOpts) -> Vec<u8> {
    envelope(
        tid,
        vec![("y", Value::str("q")), ("q", Value::str(name)), ("a", args)],
        opts,
    )
}

pub fn response(tid: &[u8], r: Value, opts: &MsgOpts) -> Vec<u8> {
    envelope(tid, vec![("y", Value::str("r")), ("r", r)], opts)
}

pub fn error(tid: &[u8], code: i64, msg: &str, opts: &MsgOpts) -> Vec<u8> {
    envelope(
        tid,
        vec![
            ("y", Value::str("e")),
            ("e", Value::List(vec![Value::Int(code), Value::str(msg)])),
        ],
        opts,
    )
}

/// An error reply whose description is arbitrary bytes (not necessarily UTF-8).
pub fn error_bytes(tid: &[u8], code: i64, msg: &[u8], opts: &MsgOpts) -> Vec<u8> {
    envelope(
        tid,
        vec![
            ("y", Value::str("e")),
            ("e", Value::List(vec![Value::Int(code), Value::Bytes(msg.to_vec())])),
        ],
        opts,
    )
}

pub fn ping_args(id: &Id) -> Value {
    Value::dict(vec![("id", Value::bytes(id))])
}
pub fn find_node_args(id: &Id, target: &Id) -> Value {
    Value::dict(vec![("id", Value::bytes(id)), ("target", Value::bytes(target))])
}
pub fn get_peers_args(id: &Id, info_hash: &Id) -> Value {
    Value::dict(vec![
        ("id", Value::bytes(id)),
        ("info_hash", Value::bytes(info_hash)),
    ])
}
pub fn get_args(id: &Id, target: &Id, seq: Option<i64>) -> Value {
    let mut items = vec![("id", Value::bytes(id)), ("target", Value::bytes(target))];
    if let Some(s) = seq {
        items.push(("seq", Value::Int(s)));
    }
    Value::dict(items)
}
pub fn announce_peer_args(
    id: &Id,
    info_hash: &Id,
    port: u16,
    implied_port: Option<i64>,
    token: &[u8],
) -> Value {
    let mut items = vec![
        ("id", Value::bytes(id)),
        ("info_hash", Value::bytes(info_hash)),
        ("port", Value::Int(port as i64)),
        ("token", Value::bytes(token)),
    ];
    if let Some(i) = implied_port {
        items.push(("implied_port", Value::Int(i)));
    }
    Value::dict(items)
}
pub fn announce_signed_peer_args(
    id: &Id,
    info_hash: &Id,
    k: &[u8],
    sig: &[u8],
    t: i64,
    token: &[u8],
) -> Value {
    Value::dict(vec![
        ("id", Value::bytes(id)),
        ("info_hash", Value::bytes(info_hash)),
        ("k", Value::bytes(k)),
        ("sig", Value::bytes(sig)),
        ("t", Value::Int(t)),
        ("token", Value::bytes(token)),
    ])
}
pub fn put_immutable_args(id: &Id, target: &Id, v: &[u8], token: &[u8]) -> Value {
    Value::dict(vec![
        ("id", Value::bytes(id)),
        ("target", Value::bytes(target)),
        ("token", Value::bytes(token)),
        ("v", Value::bytes(v)),
    ])
}
#[allow(clippy::too_many_arguments)]
pub fn put_mutable_args(
    id: &Id,
    target: &Id,
    v: &[u8],
    k: &[u8],
    sig: &[u8],
    seq: i64,
    cas: Option<i64>,
    salt: Option<&[u8]>,
    token: &[u8],
) -> Value {
    let mut items = vec![
        ("id", Value::bytes(id)),
        ("target", Value::bytes(target)),
        ("token", Value::bytes(token)),
        ("v", Value::bytes(v)),
        ("k", Value::bytes(k)),
        ("sig", Value::bytes(sig)),
        ("seq", Value::Int(seq)),
    ];
    if let Some(c) = cas {
        items.push(("cas", Value::Int(c)));
    }
    if let Some(s) = salt {
        items.push(("salt", Value::bytes(s)));
    }
    Value::dict(items)
}

/// A signed BEP44 item owned by the harness.
#[derive(Clone, Debug, PartialEq)]
pub struct Item {
    pub k: [u8; 32],
    pub salt: Option<Vec<u8>>,
    pub seq: i64,
    pub v: Vec<u8>,
    pub sig: [u8; 64],
}

impl Item {
    pub fn signed(key: &SigningKey, salt: Option<&[u8]>, seq: i64, v: &[u8]) -> Item {
        Item {
            k: key.verifying_key().to_bytes(),
            salt: salt.map(|s| s.to_vec()),
            seq,
            v: v.to_vec(),
            sig: sign(key, &mutable_signable(seq, v, salt)),
        }
    }
    pub fn target(&self) -> Id {
        mutable_target(&self.k, self.salt.as_deref())
    }
    pub fn verifies(&self) -> bool {
        verify(
            &self.k,
            &mutable_signable(self.seq, &self.v, self.salt.as_deref()),
            &self.sig,
        )
    }
}

#[cfg(test)]
mod tests {
    use super::*;

    #[test]
    fn bep42_vectors() {
        // Test vectors from BEP 42.
        let cases: [(&str, u8, [u8; 3]); 5] = [
            ("124.31.75.21", 1, [0x5f, 0xbf, 0xbf]),
            ("21.75.31.124", 86, [0x5a, 0x3c, 0xe9]),
            ("65.23.51.170", 22, [0xa5, 0xd4, 0x32]),
            ("84.124.73.14", 65, [0x1b, 0x03, 0x21]),
            ("43.213.53.83", 90, [0xe5, 0x6f, 0x6c]),
        ];
        for (ip, r, want) in cases {
            let p = bep42_prefix(ip.parse().unwrap(), r);
            assert_eq!(p[0], want[0]);
            assert_eq!(p[1], want[1]);
            assert_eq!(p[2] & 0xf8, want[2] & 0xf8);
        }
    }

    #[test]
    fn crc32c_check() {
        assert_eq!(crc32c(b"123456789"), 0xE3069283);
    }
}
