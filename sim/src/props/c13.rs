//! C13 — joining works: bootstrap populates tables and connects the network.

use std::collections::BTreeSet;
use std::net::SocketAddrV4;

use serde_json::json;

use crate::krpc::{self, Id, Krpc, MsgOpts};
use crate::props::common::*;
use crate::props::netkit::*;
use crate::props::{PropInfo, Property, Report, RunCtx, Tier};
use crate::rng::Rng;
use crate::sim::*;

/// Aged large network: 90..140 servers join, every node bootstraps, and the network then runs for 21..44
/// virtual minutes - past the 15-minute staleness limit and the next maintenance round. "Every joined server
/// is discoverable: the knows-graph STAYS strongly connected": nothing has failed, so the graph that was
/// connected after the join still is.
const AGE_LO: u64 = 21;
const AGE_HI: u64 = 44;
fn run_aged_large(ctx: &RunCtx) -> Report {
    let mut report = Report::default();
    let mut rng = Rng::new(ctx.seed);
    let net_cfg = NetCfg { latency_min_us: 500, latency_max_us: rng.range(2_000, 120_000), ..NetCfg::default() };
    let sim = Sim::new(ctx.seed, net_cfg);
    sim.set_snap_mode(SnapMode::OnDemand);
    let mut plan = random_plan(&mut rng, 20, 0);
    plan.servers = rng.usize(90, 140);
    plan.clients = 0;
    plan.dead_bootstrap = 0;
    plan.junk_bootstrap = false;
    plan.configured_ip_pct = 100;
    plan.join = Join::Staggered(rng.range(5, 40) * SEC);
    let net = build(&sim, &mut rng, &plan);
    let all = net.all();
    let ops: Vec<OpId> = all.iter().map(|h| sim.bootstrapped(*h)).collect();
    let done = sim.run_ops(&ops, sim.now() + 120 * SEC);
    let what = format!("aged large network: {plan:?}");
    if !done {
        report.violate("hang", "bootstrapped-did-not-return", format!("bootstrapped() did not return within 120 s; {what}"));
    }
    let connected = |sim: &Sim| -> Option<(HostId, usize, HostId)> {
        refresh_snapshots(sim, &all);
        let g = knows_graph(sim, &all);
        for h in &net.servers {
            let r = reachable(&g, *h);
            let missing: Vec<HostId> = net.servers.iter().copied().filter(|s| !r.contains(s)).collect();
            if !missing.is_empty() {
                return Some((*h, missing.len(), missing[0]));
            }
        }
        None
    };
    // every node looks a few random targets up in its first three minutes (tables grow well beyond the
    // neighbourhood of the own id, as they do on any node that is used)
    let t_l = sim.now();
    for h in &all {
        for _ in 0..rng.usize(3, 6) {
            let (h, t, at) = (*h, rng.id(), t_l + rng.range(0, 180) * SEC);
            sim.at(at, move |sim| {
                let _ = sim.find_node(h, t);
            });
        }
    }
    sim.run_until(t_l + 190 * SEC);
    sim.run_for(rng.range(5, 30) * SEC);
    let early = connected(&sim);
    let age = rng.range(AGE_LO * 60, AGE_HI * 60) * SEC;
    sim.run_until(net.joined_at + age);
    for h in &all {
        if let Some(d) = sim.died(*h) {
            report.violate("node-died", "node-actor-panicked", format!("node {} died: {d}", sim.node_addr(*h)));
        }
    }
    if report.violation.is_none() {
        match (early, connected(&sim)) {
            (None, Some((from, n_missing, example))) => report.violate(
                "connectivity",
                "knows-graph-fell-apart-with-age",
                format!("{} min after the join, with every node alive, {} of {} servers are no longer reachable from {} through routing tables (e.g. {}); the graph was strongly connected right after the join; {what}", age / (60 * SEC), n_missing, net.servers.len(), sim.node_addr(from), sim.node_addr(example)),
            ),
            (Some(_), _) => report.probe("aged_large_network_not_connected_after_join", 1),
            _ => {}
        }
    }
    let sizes: Vec<usize> = all.iter().filter_map(|h| sim.snapshot(*h).map(|s| s.routing_table.size)).collect();
    report.probe("aged_large_network_runs", 1);
    report.probe("aged_large_network_min_table_size", sizes.iter().copied().min().unwrap_or(0) as u64);
    report.nontrivial = true;
    report.probe("nodes", all.len() as u64);
    report.sample = Some(json!({"plan": what}));
    report.plan_dump = Some(what);
    finish(&sim, report)
}

fn run(ctx: &RunCtx) -> Report {
    // ten runs of a quick batch (every 300th run): the aged large network
    if ctx.index % 300 == 7 {
        return run_aged_large(ctx);
    }
    let mut report = Report::default();
    let mut rng = Rng::new(ctx.seed);
    // 1 run in 8: slow links, round trips above the initial 500 ms request timeout
    let slow_links = rng.chance(1, 8);
    let lat_min = if slow_links { rng.range(260_000, 330_000) } else { 500 };
    let net_cfg = NetCfg {
        latency_min_us: lat_min,
        latency_max_us: if slow_links { lat_min + 60_000 } else { rng.range(2_000, 200_000) },
        ..NetCfg::default()
    };
    let sim = Sim::new(ctx.seed, net_cfg);
    sim.set_snap_mode(SnapMode::OnDemand);
    let large = match ctx.tier {
        Tier::Quick => rng.chance(1, 80),
        Tier::Thorough => rng.chance(1, 30),
    };
    let mut plan = if large {
        let mut p = random_plan(&mut rng, 20, 10);
        p.servers = rng.usize(50, 300);
        p.clients = rng.usize(0, 20);
        p
    } else {
        random_plan(&mut rng, 20, 30)
    };
    if let Join::Sequential(g) = plan.join {
        if large {
            plan.join = Join::Sequential(g.min(500 * MS));
        }
    }
    let net = build(&sim, &mut rng, &plan);
    let all = net.all();
    // every node is asked whether it bootstrapped, as an application would
    let mut boot_ops: Vec<(HostId, OpId)> = vec![];
    for h in &all {
        boot_ops.push((*h, sim.bootstrapped(*h)));
    }
    let ids: Vec<OpId> = boot_ops.iter().map(|o| o.1).collect();
    let mut done = sim.run_ops(&ids, sim.now() + 120 * SEC);
    if slow_links {
        // the first lookups time out before the adaptive timeout has learned the round trip:
        // an application asks again; within 90 s every node must report bootstrapped
        report.probe("slow_link_runs", 1);
        // (all nodes that still say false ask again together; a node-by-node loop would spend the
        // whole 90 s on the first nodes of a large network - a false alarm of an earlier version)
        let deadline = sim.now() + 90 * SEC;
        loop {
            let pending: Vec<usize> = (0..boot_ops.len()).filter(|i| boot_ops[*i].0 != net.first && !sim.with_op(boot_ops[*i].1, |o| matches!(o.outcome, Some(Outcome::Bool(true))))).collect();
            if pending.is_empty() || sim.now() >= deadline {
                break;
            }
            for i in &pending {
                boot_ops[*i].1 = sim.bootstrapped(boot_ops[*i].0);
            }
            let again: Vec<OpId> = pending.iter().map(|i| boot_ops[*i].1).collect();
            done = sim.run_ops(&again, sim.now() + 30 * SEC) && done;
            sim.run_for(300 * MS);
            report.probe("slow_link_retry_rounds", 1);
        }
    }
    sim.run_for(rng.range(1, 20) * SEC);
    refresh_snapshots(&sim, &all);
    let what = format!("{plan:?}");
    for h in &all {
        if let Some(d) = sim.died(*h) {
            report.violate("node-died", "node-actor-panicked", format!("node {} died: {d}", sim.node_addr(*h)));
        }
    }
    if !done {
        report.violate("hang", "bootstrapped-did-not-return", format!("bootstrapped() did not return within 120 s; {what}"));
    }
    // 1. bootstrapped() = true, table non-empty (a live server is listed for everyone but the first)
    for (h, op) in &boot_ops {
        if *h == net.first && all.len() == 1 {
            continue;
        }
        let ok = sim.with_op(*op, |o| matches!(o.outcome, Some(Outcome::Bool(true))));
        let size = sim.snapshot(*h).map(|s| s.routing_table.size).unwrap_or(0);
        if *h != net.first {
            if sim.op_done(*op) && !ok {
                report.violate("bootstrap", "bootstrapped-false-with-live-bootstrap-node", format!("{} reports not bootstrapped although its bootstrap node is alive; {what}", sim.node_addr(*h)));
            } else if size == 0 {
                report.violate("bootstrap", "empty-table-after-bootstrap", format!("{} has an empty routing table after bootstrapping; {what}", sim.node_addr(*h)));
            }
        }
    }
    // 1b. "responders are added to the table": every node that answered one of a joiner's requests in time is in
    //     the joiner's tables after the bootstrap (private plans of up to 20 servers: no bucket fills up, no
    //     IP is shared, nobody re-keys)
    if report.violation.is_none() && !large && !slow_links && !plan.public && net.servers.len() <= 20 {
        let mut checked = 0u64;
        'hosts: for h in &all {
            let Some(snap) = sim.snapshot(*h) else { continue };
            let known: BTreeSet<SocketAddrV4> = [&snap.routing_table, &snap.signed_peers_routing_table].iter().flat_map(|t| t.buckets.iter().flat_map(|(_, b)| b.iter().map(|n| n.address))).collect();
            let me = sim.node_addr(*h);
            let answered: Vec<(SocketAddrV4, u64)> = sim.with_trace(|tr| {
                let mut reqs: std::collections::BTreeMap<(SocketAddrV4, u32), u64> = Default::default();
                let mut out = vec![];
                for d in tr.iter() {
                    let Some(k) = Krpc::parse(&d.bytes) else { continue };
                    if d.from_host == Some(*h) && k.is_query() && d.dup_of.is_none() {
                        reqs.insert((d.dst, k.tid_u32().unwrap_or(0)), d.t_send);
                    } else if d.dst == me && k.is_response() && d.fate == Fate::Delivered && !k.ro {
                        if let Some(sent) = reqs.get(&(d.src, k.tid_u32().unwrap_or(0))) {
                            let at = d.t_deliver.unwrap_or(u64::MAX);
                            if at.saturating_sub(*sent) < 450 * MS {
                                out.push((d.src, at));
                            }
                        }
                    }
                }
                out
            });
            for (a, at) in answered {
                checked += 1;
                if a != me && !known.contains(&a) {
                    report.violate("bootstrap", "responder-not-in-the-table", format!("{} answered a request of joiner {} in time (at t={:.3}s) but is in neither of its routing tables after the bootstrap; {what}", a, me, at as f64 / SEC as f64));
                    break 'hosts;
                }
            }
        }
        report.probe("in_time_responders_checked_against_the_table", checked);
    }
    // 2. the first node learned the servers that bootstrapped from it
    if report.violation.is_none() && !large {
        if let Some(s) = sim.snapshot(net.first) {
            let known: BTreeSet<SocketAddrV4> = [&s.routing_table, &s.signed_peers_routing_table].iter().flat_map(|t| t.buckets.iter().flat_map(|(_, b)| b.iter().map(|n| n.address))).collect();
            for h in &net.servers {
                if *h != net.first && !known.contains(&sim.node_addr(*h)) {
                    report.violate("bootstrap", "first-node-did-not-learn-a-joiner", format!("the first node does not know server {} that bootstrapped from it; {what}", sim.node_addr(*h)));
                    break;
                }
            }
        }
    }
    // 3. knows-graph strongly connected over the servers; clients know somebody
    if report.violation.is_none() {
        let g = knows_graph(&sim, &all);
        for h in &net.servers {
            let r = reachable(&g, *h);
            let missing: Vec<SocketAddrV4> = net.servers.iter().filter(|s| !r.contains(s)).map(|s| sim.node_addr(*s)).collect();
            if !missing.is_empty() {
                report.violate(
                    "connectivity",
                    if large { "knows-graph-not-strongly-connected-large" } else { "knows-graph-not-strongly-connected" },
                    format!("from server {} {} of {} servers are unreachable through routing tables (e.g. {}); {what}", sim.node_addr(*h), missing.len(), net.servers.len(), missing[0]),
                );
                break;
            }
        }
        for c in &net.clients {
            if g.get(c).map(|s| s.is_empty()).unwrap_or(true) && report.violation.is_none() {
                report.violate("connectivity", "client-knows-nobody", format!("client {} knows no live node; {what}", sim.node_addr(*c)));
            }
        }
        report.probe("connectivity_checked", 1);
    }
    // 4. up to 20 servers: a lookup from any node queries every live server (not judged on slow links:
    //    there a reply can arrive after the requester's current timeout, the lookup then legitimately
    //    ends without having heard of the nodes listed in it - a false alarm of an earlier version)
    if report.violation.is_none() && !large && !slow_links {
        let n_lookups = rng.usize(1, 3);
        for _ in 0..n_lookups {
            let from = all[rng.usize(0, all.len() - 1)];
            let target = rng.id();
            let t0 = sim.now();
            let op = if rng.chance(1, 2) { sim.find_node(from, target) } else { sim.get_immutable(from, target) };
            sim.run_ops(&[op], sim.now() + 120 * SEC);
            let queried: BTreeSet<SocketAddrV4> = sim.with_trace(|tr| {
                tr.iter()
                    .filter(|d| d.from_host == Some(from) && d.t_send >= t0)
                    .filter(|d| Krpc::parse(&d.bytes).map(|k| k.is_query() && k.target() == Some(target)).unwrap_or(false))
                    .map(|d| d.dst)
                    .collect()
            });
            for s in &net.servers {
                if *s != from && !queried.contains(&sim.node_addr(*s)) {
                    if ctx.verbose {
                        refresh_snapshots(&sim, &all);
                        let missing = sim.node_addr(*s);
                        println!("missing {missing} id {:?}", sim.snapshot(*s).map(|x| hex8(&x.id)));
                        for h in &all {
                            if let Some(sn) = sim.snapshot(*h) {
                                for (tn, tb) in [("main", &sn.routing_table), ("signed", &sn.signed_peers_routing_table)] {
                                    for (_, b) in &tb.buckets {
                                        for n in b {
                                            if n.address == missing {
                                                println!("  {} ({}) has it in {tn} as {} secure={} age {:.0}s", sim.node_addr(*h), if sim.node_spec(*h).server_mode { "server" } else { "client" }, hex8(&n.id), n.secure, n.age_ns as f64 / 1e9);
                                            }
                                        }
                                    }
                                }
                            }
                        }
                        println!("  target {} t0 {:.1}s", hex8(&target), t0 as f64 / 1e9);
                        sim.with_trace(|tr| {
                            for d in tr.iter().filter(|d| d.from_host == Some(from) && d.t_send >= t0) {
                                println!("    sent t={:.3}s -> {} {}", d.t_send as f64 / 1e9, d.dst, Krpc::parse(&d.bytes).map(|k| format!("{:?} target={:?} tid={:?}", k.query_name(), k.target().map(|t| hex8(&t)), k.tid_u32())).unwrap_or_default());
                            }
                        });
                        let fs = sim.snapshot(from).unwrap();
                        println!("  lookup node {} id {} table size {} public_address {:?} firewalled {}", sim.node_addr(from), hex8(&fs.id), fs.routing_table.size, fs.public_address, fs.firewalled);
                    }
                    // Why can a known server fall out of the 20 candidates? Because some address is
                    // a candidate twice, under two ids. Two histories produce that:
                    //  - a server re-keyed after confirming its address and is still held under an
                    //    id it once announced (open finding), or
                    //  - a table holds an address under an id that its node never announced.
                    refresh_snapshots(&sim, &all);
                    let mut announced: BTreeSet<(SocketAddrV4, Id)> = BTreeSet::new();
                    sim.with_trace(|tr| {
                        for d in tr.iter() {
                            if let (Some(h), Some(k)) = (d.from_host, Krpc::parse(&d.bytes)) {
                                if let Some(id) = k.id() {
                                    announced.insert((sim.node_addr(h), id));
                                }
                            }
                        }
                    });
                    let server_addrs: BTreeSet<SocketAddrV4> = net.servers.iter().map(|h| sim.node_addr(*h)).collect();
                    let (mut stale_old, mut stale_never) = (0usize, 0usize);
                    for h in &all {
                        if let Some(sn) = sim.snapshot(*h) {
                            for t in [&sn.routing_table, &sn.signed_peers_routing_table] {
                                for (_, b) in &t.buckets {
                                    for n in b {
                                        if !server_addrs.contains(&n.address) {
                                            continue;
                                        }
                                        let cur = net.servers.iter().find(|x| sim.node_addr(**x) == n.address).and_then(|x| sim.snapshot(*x)).map(|x| x.id);
                                        if Some(n.id) != cur {
                                            if announced.contains(&(n.address, n.id)) {
                                                stale_old += 1;
                                            } else {
                                                stale_never += 1;
                                            }
                                        }
                                    }
                                }
                            }
                        }
                    }
                    let stale_holders = stale_old;
                    let key = if stale_never > 0 {
                        "lookup-missed-a-server-tables-hold-ids-nobody-announced"
                    } else if stale_old > 0 {
                        "lookup-missed-a-server-rekeyed-servers-held-under-old-ids"
                    } else {
                        "lookup-missed-a-server"
                    };
                    report.violate(
                        "discoverability",
                        key,
                        format!("a lookup from {} queried {} addresses but not server {} ({} servers in the network; {stale_holders} table entries hold a server under an id it announced earlier and no longer has, {stale_never} under an id it never announced); {what}", sim.node_addr(from), queried.len(), sim.node_addr(*s), net.servers.len()),
                    );
                    break;
                }
            }
            report.probe("every_server_queried_checks", 1);
        }
    }
    // 4b. promotion: adaptive nodes ("clients" here are nodes built without server_mode()) that are reachable
    //    switch to server mode at their first 15-minute refresh. From then on they are joined servers like
    //    any other: some other node's table holds them, and (<= 20 servers, private plan) a lookup from
    //    another node queries them. Judged for nodes whose snapshot showed server mode 40 s before the check.
    let mut prng = Rng::new(crate::rng::key(ctx.seed, &[crate::rng::tag("c13-promotion")]));
    if report.violation.is_none() && !large && !slow_links && !net.clients.is_empty() && all.len() <= 20 && prng.chance(1, 3) {
        let margin = if plan.skew { 17 * 60 } else { 15 * 60 + 20 };
        sim.run_until(net.joined_at + margin * SEC + prng.range(0, 12 * 60) * SEC);
        refresh_snapshots(&sim, &all);
        let promoted: Vec<HostId> = net.clients.iter().copied().filter(|c| sim.alive(*c) && sim.snapshot(*c).map(|s| s.server_mode).unwrap_or(false)).collect();
        sim.run_for(40 * SEC);
        refresh_snapshots(&sim, &all);
        report.probe("promotion_runs", 1);
        report.probe("promoted_adaptive_nodes", promoted.len() as u64);
        let g = knows_graph(&sim, &all);
        for p in &promoted {
            let holders = all.iter().filter(|h| **h != *p && g.get(*h).map(|s| s.contains(p)).unwrap_or(false)).count();
            if holders == 0 {
                report.violate("discoverability", "promoted-server-known-to-nobody", format!("{} switched from adaptive client to server mode at its 15-minute refresh, but more than 40 s later no other node's routing tables hold it; {what}", sim.node_addr(*p)));
                break;
            }
        }
        if report.violation.is_none() && !plan.public && !promoted.is_empty() && net.servers.len() + promoted.len() <= 20 {
            let from = *prng.pick(&all);
            let target = prng.id();
            let t0 = sim.now();
            let op = if prng.chance(1, 2) { sim.find_node(from, target) } else { sim.get_immutable(from, target) };
            sim.run_ops(&[op], sim.now() + 120 * SEC);
            let queried: BTreeSet<SocketAddrV4> = sim.with_trace(|tr| {
                tr.iter()
                    .filter(|d| d.from_host == Some(from) && d.t_send >= t0)
                    .filter(|d| Krpc::parse(&d.bytes).map(|k| k.is_query() && k.target() == Some(target)).unwrap_or(false))
                    .map(|d| d.dst)
                    .collect()
            });
            for p in &promoted {
                if *p != from && !queried.contains(&sim.node_addr(*p)) {
                    report.violate("discoverability", "lookup-missed-a-promoted-server", format!("a lookup from {} queried {} addresses but not {} which had switched to server mode more than 40 s earlier ({} servers + {} promoted); {what}", sim.node_addr(from), queried.len(), sim.node_addr(*p), net.servers.len(), promoted.len()));
                    break;
                }
            }
            report.probe("promoted_server_lookup_checks", 1);
        }
    }
    // 5. a joiner whose bootstrap list is entirely dead reports not bootstrapped, and returns
    if report.violation.is_none() && rng.chance(1, 2) {
        let dead: Vec<SocketAddrV4> = (0..rng.usize(1, 3)).map(|i| SocketAddrV4::new(priv_ip(50_000 + i), 6881)).collect();
        let mut spec = NodeSpec::new(priv_ip(40_000), 6881);
        spec.server_mode = rng.chance(1, 2);
        spec.bootstrap = dead.iter().map(|a| a.to_string()).collect();
        let h = sim.add_node(spec);
        let op = sim.bootstrapped(h);
        // horizon: (A + 2)(tau + 1 s) + 5 s with A = dead addresses, tau = 0.5 s
        let horizon = (dead.len() as u64 + 2) * (SEC / 2 + SEC) + 5 * SEC;
        let ok = sim.run_ops(&[op], sim.now() + horizon);
        if !ok {
            report.violate("hang", "bootstrapped-hangs-with-dead-bootstrap-list", format!("bootstrapped() did not return within {} s with only dead bootstrap addresses", horizon / SEC));
        } else if sim.with_op(op, |o| matches!(o.outcome, Some(Outcome::Bool(true)))) {
            report.violate("bootstrap", "bootstrapped-true-with-dead-bootstrap-list", "bootstrapped() returned true although every bootstrap address is dead".into());
        }
        report.probe("dead_bootstrap_joiner", 1);
    }
    // 6. a node started on an address that is already bound reports the error, and nothing else breaks
    if report.violation.is_none() && rng.chance(1, 2) {
        let victim = all[rng.usize(0, all.len() - 1)];
        let mut spec = sim.node_spec(victim);
        spec.bootstrap = vec![sim.node_addr(net.first).to_string()];
        let h = sim.add_node(spec);
        match sim.died(h) {
            Some(d) if d.starts_with("build error") => {}
            other => report.violate("bind", "second-bind-did-not-fail-cleanly", format!("starting a node on the bound address {} gave {other:?} instead of an io error", sim.node_addr(victim))),
        }
        let o = sim.info(victim);
        if !sim.run_ops(&[o], sim.now() + 5 * SEC) || sim.died(victim).is_some() {
            report.violate("bind", "bound-node-disturbed-by-second-bind", format!("node {} stopped answering after another node tried to bind its address", sim.node_addr(victim)));
        }
        report.probe("bind_conflict_checks", 1);
    }
    // 7. an early bird: a server whose only bootstrap address is not up yet when it starts; meanwhile
    //    other full nodes ask it (find_node) and then fall silent; once the bootstrap server is up the
    //    node must join on one of its retries
    if report.violation.is_none() && !slow_links && rng.chance(1, 2) {
        let b_ip = if plan.public { pub_ip(&mut rng) } else { priv_ip(45_000) };
        let x_ip = if plan.public { pub_ip(&mut rng) } else { priv_ip(45_001) };
        let b_addr = SocketAddrV4::new(b_ip, 6881);
        let mut xspec = NodeSpec::new(x_ip, 6881).server();
        xspec.bootstrap = vec![b_addr.to_string()];
        let x = sim.add_node(xspec);
        let x_addr = sim.node_addr(x);
        sim.run_for(rng.range(200, 3000) * MS);
        // ghosts: full nodes (not read-only, signed-peers capable) that ask once and are never heard of again
        let n_ghosts = rng.usize(0, 4);
        for g in 0..n_ghosts {
            let ga = SocketAddrV4::new(if plan.public { pub_ip(&mut rng) } else { priv_ip(45_100 + g) }, 6881);
            let (_, _glog) = logging_raw(&sim, ga);
            let gid = rng.id();
            let o = MsgOpts { version: Some(krpc::VERSION_RS6.to_vec()), ..MsgOpts::default() };
            sim.raw_send(ga, x_addr, krpc::query(&krpc::tid_bytes(8800 + g as u32), "find_node", krpc::find_node_args(&gid, &rng.id()), &o));
            sim.run_for(rng.range(10, 2000) * MS);
        }
        sim.run_for(rng.range(1, 30) * SEC);
        // nobody the node could reach exists yet (its only bootstrap address is down, the ghosts asked once and are
        // gone): asked now, it reports not bootstrapped, whatever unverified requesters it has heard of
        if rng.chance(1, 2) {
            let o = sim.bootstrapped(x);
            if !sim.run_ops(&[o], sim.now() + 30 * SEC) {
                report.violate("hang", "bootstrapped-did-not-return", "bootstrapped() of the early-bird node did not return within 30 s while its bootstrap node was down".into());
            } else if sim.with_op(o, |o| matches!(o.outcome, Some(Outcome::Bool(true)))) {
                report.violate("bootstrap", "bootstrapped-true-with-dead-bootstrap-list", format!("bootstrapped() returned true for a node whose only bootstrap address is down and whose routing table is empty ({n_ghosts} silent requesters had asked it); {what}"));
            }
            report.probe("early_bird_asked_before_its_bootstrap_node_is_up", 1);
        }
        // now the bootstrap server comes up, as a member of the live network
        let mut bspec = NodeSpec::new(b_ip, 6881).server();
        bspec.bootstrap = vec![sim.node_addr(net.first).to_string()];
        let _b = sim.add_node(bspec);
        sim.run_for(5 * SEC);
        let deadline = sim.now() + 40 * SEC;
        let mut joined = false;
        while sim.now() < deadline && !joined {
            let o = sim.bootstrapped(x);
            if !sim.run_ops(&[o], sim.now() + 30 * SEC) {
                report.violate("hang", "bootstrapped-did-not-return", "bootstrapped() of the early-bird node did not return within 30 s".into());
                break;
            }
            joined = sim.with_op(o, |o| matches!(o.outcome, Some(Outcome::Bool(true))));
            sim.run_for(2 * SEC);
        }
        if !joined && report.violation.is_none() {
            report.violate("bootstrap", "early-bird-never-joined", format!("a server started {n_ghosts} silent requesters ago, before its bootstrap node, still reports not bootstrapped 45 s after that bootstrap node came up; {what}"));
        }
        if let Some(d) = sim.died(x) {
            report.violate("node-died", "node-actor-panicked", format!("early-bird node died: {d}"));
        }
        report.probe("early_bird_joiners", 1);
        report.probe("early_bird_ghost_requesters", n_ghosts as u64);
    }
    report.nontrivial = all.len() > 1;
    if large {
        report.probe("large_network", 1);
    }
    report.probe("nodes", all.len() as u64);
    match plan.join {
        Join::Sequential(_) => report.probe("join_sequential", 1),
        Join::Staggered(_) => report.probe("join_staggered", 1),
        Join::Simultaneous => report.probe("join_simultaneous", 1),
    }
    report.sample = Some(json!({"plan": what}));
    report.plan_dump = Some(what);
    finish(&sim, report)
}

pub fn property() -> Property {
    Property {
        id: "C13",
        run,
        budget: |t| match t {
            Tier::Quick => 3000,
            Tier::Thorough => 100_000,
        },
        wall_cap_s: |t| match t {
            Tier::Quick => 75.0,
            Tier::Thorough => 1500.0,
        },
        info: || PropInfo {
            floors: vec![],
            rule: "one run = a network of real nodes: 1..20 servers + 0..30 clients (1 run in 80 / 30: 50..300 servers), private or public IP plan (0/50/100% of public nodes configured with public_ip), sequential / staggered / simultaneous joins, optional dead addresses in every bootstrap list, optional second bootstrap entry, optional clock skew; every node calls bootstrapped(); then: bootstrapped()=true and table non-empty, the first node knows every server that joined through it, the knows-graph over servers is strongly connected, 1..3 lookups from random nodes query every server (<= 20 servers), and in half of the runs a late joiner with an all-dead bootstrap list must report false within (A+2)(tau+1 s)+5 s. Non-trivial = more than one node; distinct = delivery-order hash".into(),
            assumptions: vec!["loss-free network; one-way latency below 200 ms".into()],
        },
    }
}
