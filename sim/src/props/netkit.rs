//! Building networks of real nodes.

use std::collections::{BTreeMap, BTreeSet};
use std::net::{Ipv4Addr, SocketAddrV4};

use crate::props::common::*;
use crate::rng::Rng;
use crate::sim::*;

#[derive(Clone, Debug, PartialEq)]
pub enum Join {
    /// each node starts `gap` after the previous one
    Sequential(u64),
    /// random start times within the window
    Staggered(u64),
    Simultaneous,
}

#[derive(Clone, Debug)]
pub struct NetPlan {
    pub servers: usize,
    pub clients: usize,
    pub public: bool,
    /// fraction (of 100) of public-plan nodes configured with `public_ip` (secure ids)
    pub configured_ip_pct: u64,
    pub join: Join,
    /// dead addresses mixed into every bootstrap list
    pub dead_bootstrap: usize,
    /// entries that do not resolve to an IPv4 socket address at all, mixed into the lists
    pub junk_bootstrap: bool,
    /// later joiners also list an earlier node besides the first one
    pub extra_bootstrap: bool,
    pub skew: bool,
}

pub struct Net {
    pub servers: Vec<HostId>,
    pub clients: Vec<HostId>,
    pub first: HostId,
    pub dead: Vec<SocketAddrV4>,
    pub joined_at: u64,
}

impl Net {
    pub fn all(&self) -> Vec<HostId> {
        self.servers.iter().chain(self.clients.iter()).copied().collect()
    }
}

pub fn random_plan(rng: &mut Rng, max_servers: usize, max_clients: usize) -> NetPlan {
    NetPlan {
        servers: rng.usize(1, max_servers),
        clients: rng.usize(0, max_clients),
        public: rng.chance(1, 2),
        configured_ip_pct: *rng.pick(&[0u64, 0, 50, 100]),
        join: match rng.below(3) {
            0 => Join::Sequential(rng.range(100, 3000) * MS),
            1 => Join::Staggered(rng.range(1, 20) * SEC),
            _ => Join::Simultaneous,
        },
        dead_bootstrap: if rng.chance(1, 4) { rng.usize(1, 3) } else { 0 },
        junk_bootstrap: rng.chance(1, 5),
        extra_bootstrap: rng.chance(1, 3),
        skew: rng.chance(1, 4),
    }
}

fn ip_for(rng: &mut Rng, public: bool, i: usize, used: &mut BTreeSet<Ipv4Addr>) -> Ipv4Addr {
    loop {
        let ip = if public { pub_ip(rng) } else { priv_ip(i) };
        if used.insert(ip) {
            return ip;
        }
    }
}

/// Build the network; returns once every node has been started (not necessarily bootstrapped).
pub fn build(sim: &Sim, rng: &mut Rng, plan: &NetPlan) -> Net {
    let mut used = BTreeSet::new();
    let dead: Vec<SocketAddrV4> = (0..plan.dead_bootstrap).map(|i| SocketAddrV4::new(ip_for(rng, plan.public, 60000 + i, &mut used), 6881)).collect();
    let total = plan.servers + plan.clients;
    // start times
    let mut starts: Vec<u64> = vec![0; total];
    let t0 = sim.now();
    for (i, s) in starts.iter_mut().enumerate().skip(1) {
        *s = match plan.join {
            Join::Sequential(gap) => i as u64 * gap,
            Join::Staggered(w) => SEC / 2 + rng.range(0, w / MS) * MS,
            Join::Simultaneous => SEC / 2,
        };
    }
    // roles: node 0 is always the first server; the rest shuffled
    let mut roles: Vec<bool> = (0..total).map(|i| i < plan.servers).collect();
    if total > 1 {
        let (_, rest) = roles.split_at_mut(1);
        rng.shuffle(rest);
    }
    let mut order: Vec<usize> = (0..total).collect();
    order.sort_by_key(|i| (starts[*i], *i));
    let mut hosts: BTreeMap<usize, HostId> = BTreeMap::new();
    let first_ip = ip_for(rng, plan.public, 0, &mut used);
    let first_addr = SocketAddrV4::new(first_ip, 6881);
    let mut earlier: Vec<SocketAddrV4> = vec![];
    for i in order {
        sim.run_until(t0 + starts[i]);
        let ip = if i == 0 { first_ip } else { ip_for(rng, plan.public, i, &mut used) };
        let mut spec = NodeSpec::new(ip, 6881);
        spec.server_mode = roles[i];
        if i > 0 {
            let mut b = vec![first_addr.to_string()];
            if plan.extra_bootstrap && roles[i] && !earlier.is_empty() {
                b.push(earlier[rng.usize(0, earlier.len() - 1)].to_string());
            }
            for d in &dead {
                b.insert(rng.usize(0, b.len()), d.to_string());
            }
            if plan.junk_bootstrap {
                // resolved without any DNS traffic: a parse error, a missing port, an IPv6 literal
                for j in ["not a socket address", "10.9.9.9", "[::1]:6881", ""] {
                    if rng.chance(1, 2) {
                        b.insert(rng.usize(0, b.len()), j.to_string());
                    }
                }
            }
            spec.bootstrap = b;
        }
        if plan.public && rng.below(100) < plan.configured_ip_pct {
            spec.public_ip = Some(ip);
        }
        if plan.skew {
            spec.clock_ppm = rng.range(0, 100_000) as i64 - 50_000;
            spec.wall_offset_us = rng.range(0, 20_000_000) as i64 - 10_000_000;
        }
        let h = sim.add_node(spec);
        if roles[i] {
            earlier.push(SocketAddrV4::new(ip, 6881));
        }
        hosts.insert(i, h);
    }
    let servers: Vec<HostId> = (0..total).filter(|i| roles[*i]).map(|i| hosts[&i]).collect();
    let clients: Vec<HostId> = (0..total).filter(|i| !roles[*i]).map(|i| hosts[&i]).collect();
    Net {
        first: hosts[&0],
        servers,
        clients,
        dead,
        joined_at: sim.now(),
    }
}

/// Directed knows-graph over live hosts: u -> v if v's address is in one of u's routing tables.
pub fn knows_graph(sim: &Sim, hosts: &[HostId]) -> BTreeMap<HostId, BTreeSet<HostId>> {
    knows_graph_of(sim, hosts, true, true)
}

/// Knows-graph restricted to the main and/or the signed-peers routing tables (lookups of a given
/// kind only walk one of them).
pub fn knows_graph_of(sim: &Sim, hosts: &[HostId], main: bool, signed: bool) -> BTreeMap<HostId, BTreeSet<HostId>> {
    let by_addr: BTreeMap<SocketAddrV4, HostId> = hosts.iter().map(|h| (sim.node_addr(*h), *h)).collect();
    let mut g = BTreeMap::new();
    for h in hosts {
        let mut out = BTreeSet::new();
        if let Some(s) = sim.snapshot(*h) {
            for (t, on) in [(&s.routing_table, main), (&s.signed_peers_routing_table, signed)] {
                if !on {
                    continue;
                }
                for (_, b) in &t.buckets {
                    for n in b {
                        if let Some(v) = by_addr.get(&n.address) {
                            if sim.alive(*v) && v != h {
                                out.insert(*v);
                            }
                        }
                    }
                }
            }
        }
        g.insert(*h, out);
    }
    g
}

pub fn reachable(g: &BTreeMap<HostId, BTreeSet<HostId>>, from: HostId) -> BTreeSet<HostId> {
    let mut seen = BTreeSet::new();
    let mut stack = vec![from];
    while let Some(u) = stack.pop() {
        if !seen.insert(u) {
            continue;
        }
        if let Some(vs) = g.get(&u) {
            for v in vs {
                stack.push(*v);
            }
        }
    }
    seen
}

/// Ask for fresh snapshots of all hosts and run long enough for them to be taken.
pub fn refresh_snapshots(sim: &Sim, hosts: &[HostId]) {
    for h in hosts {
        sim.want_snapshot(*h);
    }
    sim.run_for(600 * MS);
}
