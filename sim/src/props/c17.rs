//! C17 — local write-conflict detection for concurrent mutable puts.
//! A second put_mutable lands at a seeded offset into the first call's lifetime (same step,
//! during the lookup, during the store phase, after completion); the items' relation and the
//! cas argument are swept; the storers answer ack / 301 / 302 / silence per family.

use std::net::SocketAddrV4;

use dht::errors::{ConcurrencyError, PutMutableError};
use serde_json::json;

use crate::krpc::{self, Krpc};
use crate::props::common::*;
use crate::props::{PropInfo, Property, Report, RunCtx, Tier};
use crate::rawnet::*;
use crate::rng::Rng;
use crate::sim::*;

#[derive(Debug, Clone, PartialEq)]
enum Res {
    Ok,
    Cas,
    NotMostRecent,
    ConflictRisk,
    Query,
    Panic(String),
    Pending,
}

fn res_of(sim: &Sim, op: OpId) -> Res {
    if let Some(p) = sim.with_op(op, |o| o.panicked.clone()) {
        return Res::Panic(p);
    }
    if !sim.op_done(op) {
        return Res::Pending;
    }
    sim.with_op(op, |o| match &o.outcome {
        Some(Outcome::PutMutable(Ok(_))) => Res::Ok,
        Some(Outcome::PutMutable(Err(PutMutableError::Query(_)))) => Res::Query,
        Some(Outcome::PutMutable(Err(PutMutableError::Concurrency(c)))) => match c {
            ConcurrencyError::CasFailed => Res::Cas,
            ConcurrencyError::NotMostRecent => Res::NotMostRecent,
            ConcurrencyError::ConflictRisk => Res::ConflictRisk,
        },
        Some(Outcome::PutImmutable(Ok(_))) | Some(Outcome::Announce(Ok(_))) => Res::Ok,
        Some(Outcome::PutImmutable(Err(_))) | Some(Outcome::Announce(Err(_))) => Res::Query,
        _ => Res::Pending,
    })
}

fn run(ctx: &RunCtx) -> Report {
    let mut report = Report::default();
    let mut rng = Rng::new(ctx.seed);
    let net = NetCfg {
        latency_min_us: 500,
        latency_max_us: rng.range(2_000, 80_000),
        ..NetCfg::default()
    };
    let sim = Sim::new(ctx.seed, net);
    sim.set_snap_mode(SnapMode::Off);
    let rawnet = RawNet::new();
    let n = rng.usize(3, 8);
    // storer families
    let family = rng.below(9);
    // families 5/6: the smallest 3xx majority (resp. exactly half) answers at once, the rest acknowledge late
    let code56: i64 = if rng.chance(1, 2) { 301 } else { 302 };
    let mut addrs = vec![];
    let mut reply_plan: Vec<PutReply> = vec![];
    for i in 0..n {
        let addr = SocketAddrV4::new(priv_ip(60 + i), 6881);
        let mut p = Peer::new(rng.id(), addr);
        p.k = 20;
        p.delay = rng.range(0, 250) * MS;
        p.put_reply = match family {
            0 => PutReply::Ack,
            1 => PutReply::Error(301),
            2 => PutReply::Error(302),
            3 => PutReply::Silent,
            5 | 6 => {
                let rejecting = if family == 5 { n / 2 + 1 } else { n / 2 };
                if i < rejecting {
                    p.delay = rng.range(0, 40) * MS;
                    PutReply::Error(code56)
                } else {
                    p.delay = rng.range(250, 380) * MS;
                    PutReply::Ack
                }
            }
            // family 7: the minority code answers first, then the other code from a bare majority, acks late
            7 if n >= 3 => {
                let minor = if code56 == 301 { 302 } else { 301 };
                if i == 0 {
                    p.delay = rng.range(0, 20) * MS;
                    PutReply::Error(minor)
                } else if i <= n / 2 + 1 {
                    p.delay = rng.range(60, 140) * MS;
                    PutReply::Error(code56)
                } else {
                    p.delay = rng.range(250, 380) * MS;
                    PutReply::Ack
                }
            }
            // family 8: an acknowledgement arrives first, then a bare majority rejects, stragglers
            // (late acks or silence) keep the put open: the majority must still surface
            8 if n >= 5 => {
                if i == 0 {
                    p.delay = rng.range(0, 20) * MS;
                    PutReply::Ack
                } else if i <= n / 2 + 1 {
                    p.delay = rng.range(60, 140) * MS;
                    PutReply::Error(code56)
                } else if rng.chance(1, 2) {
                    p.delay = rng.range(250, 380) * MS;
                    PutReply::Ack
                } else {
                    PutReply::Silent
                }
            }
            8 => PutReply::Ack,
            _ => {
                if i == 0 {
                    PutReply::Error(if rng.chance(1, 2) { 301 } else { 302 })
                } else {
                    PutReply::Ack
                }
            }
        };
        reply_plan.push(p.put_reply.clone());
        rawnet.add(&sim, p);
        addrs.push(addr);
    }
    for i in 0..n {
        rawnet.with_peer(i, |p| p.knows = (0..n).collect());
    }
    let storers_result = match family {
        5 => {
            if code56 == 301 {
                Res::Cas
            } else {
                Res::NotMostRecent
            }
        }
        0 | 4 | 6 | 7 | 8 => Res::Ok,
        1 => Res::Cas,
        2 => Res::NotMostRecent,
        _ => Res::Query,
    };
    let mut wspec = NodeSpec::new(priv_ip(1), 6881);
    wspec.server_mode = rng.chance(1, 4);
    wspec.bootstrap = addrs.iter().map(|a| a.to_string()).collect();
    let writer = sim.add_node(wspec);
    sim.run_for(3 * SEC);

    let key = krpc::signing_key(rng.bytes(32).try_into().unwrap());
    let salt: Option<&[u8]> = if rng.chance(1, 2) { Some(b"salt") } else { None };
    let non_mutable = rng.chance(1, 8);
    report.elements = 0;

    if non_mutable && rng.chance(1, 2) {
        // an announce whose info hash IS the target of a put_mutable that is in flight on this node: the
        // conflict rules are about mutable items, an announce must never be answered with a concurrency error
        let item = dht::MutableItem::new(&key, b"in flight", rng.range(1, 9) as i64, salt);
        let ih = *item.target().as_bytes();
        let first = sim.put_mutable(writer, item, None);
        sim.run_for(match rng.below(4) {
            0 => 0,
            1 => rng.range(0, 60) * MS,
            2 => rng.range(60, 900) * MS,
            _ => rng.range(900, 3000) * MS,
        });
        let which = rng.below(2);
        let second = if which == 0 { sim.announce_peer(writer, ih, Some(700)) } else { sim.announce_signed_peer(writer, ih, [7u8; 32]) };
        sim.run_ops(&[first, second], sim.now() + 120 * SEC);
        match res_of(&sim, second) {
            Res::Panic(p) => report.violate("api-panic", "non-mutable-put-panicked", format!("an announce (kind {which}) on the target of an in-flight put_mutable panicked: {p}")),
            Res::Pending => report.violate("hang", "non-mutable-put-hang", "an announce on the target of an in-flight put_mutable did not return".into()),
            Res::Ok | Res::Query => {}
            other => report.violate("wrong-error", "concurrency-error-for-non-mutable-put", format!("an announce on the target of an in-flight put_mutable returned {other:?}")),
        }
        match res_of(&sim, first) {
            Res::Panic(p) => report.violate("api-panic", "put-mutable-panicked", format!("put_mutable panicked when an announce for its target was issued meanwhile: {p}")),
            Res::Pending => report.violate("hang", "put-mutable-hang", "put_mutable did not return when an announce for its target was issued meanwhile".into()),
            _ => {}
        }
        report.nontrivial = true;
        report.probe("announce_on_in_flight_mutable_target", 1);
        report.fingerprint = crate::rng::key(sim.order_fingerprint(), &[which, family, 77]);
        report.sample = Some(json!({"announce_on_mutable_target": which, "family": family}));
        report.plan_dump = Some(format!("announce kind={which} on the target of an in-flight put_mutable, family={family}"));
        return finish(&sim, report);
    }
    if non_mutable {
        // overlapping identical immutable puts / announces must never see a concurrency error
        let v = rng.bytes(20);
        let ih = rng.id();
        let which = rng.below(3);
        let mk = |sim: &Sim| match which {
            0 => sim.put_immutable(writer, v.clone()),
            1 => sim.announce_peer(writer, ih, Some(700)),
            _ => sim.announce_signed_peer(writer, ih, [7u8; 32]),
        };
        let a = mk(&sim);
        sim.run_for(rng.range(0, 1500) * MS);
        let b = mk(&sim);
        sim.run_ops(&[a, b], sim.now() + 120 * SEC);
        for (name, op) in [("first", a), ("second", b)] {
            match res_of(&sim, op) {
                Res::Panic(p) => report.violate("api-panic", "non-mutable-put-panicked", format!("{name} overlapping non-mutable put (kind {which}, storers family {family}) panicked: {p}")),
                Res::Pending => report.violate("hang", "non-mutable-put-hang", format!("{name} overlapping non-mutable put did not return")),
                Res::Ok | Res::Query => {}
                other => report.violate("wrong-error", "concurrency-error-for-non-mutable-put", format!("{name} non-mutable put returned {other:?}")),
            }
        }
        report.nontrivial = true;
        report.probe("non_mutable_overlap", 1);
        report.fingerprint = crate::rng::key(sim.order_fingerprint(), &[which, family]);
        report.sample = Some(json!({"non_mutable_kind": which, "family": family}));
        report.plan_dump = Some(format!("non-mutable overlap kind={which} family={family}"));
        return finish(&sim, report);
    }

    let s1 = rng.range(2, 6) as i64;
    let item1 = dht::MutableItem::new(&key, b"first value", s1, salt);
    let relation = rng.below(4); // 0 identical, 1 lower seq, 2 equal seq other value, 3 higher seq
    let cas_kind = rng.below(3); // 0 none, 1 = in-flight seq, 2 other
    let (s2, v2): (i64, &[u8]) = match relation {
        0 => (s1, b"first value"),
        1 => (s1 - 1 - rng.below(2) as i64, b"second value"),
        2 => (s1, b"second value"),
        _ => (s1 + 1 + rng.below(3) as i64, b"second value"),
    };
    let item2 = dht::MutableItem::new(&key, v2, s2, salt);
    let cas2 = match cas_kind {
        0 => None,
        1 => Some(s1),
        _ => Some(s1 + if rng.chance(1, 2) { 7 } else { -1 }),
    };
    // offset of the second call into the first call's lifetime
    let delta = match rng.below(6) {
        0 => 0,
        1 => rng.range(0, 50) * MS,
        2 | 3 => rng.range(50, 1200) * MS,
        4 => rng.range(1200, 2500) * MS,
        _ => rng.range(2500, 6000) * MS,
    };
    let target = *item1.target().as_bytes();
    // 1 run in 3 (own random stream): *warm cache* - the writer looked the target up a moment ago, so both puts
    // start from the cached closest nodes: the first is in its store phase at once, and the second meets it there
    let mut wrng = Rng::new(crate::rng::key(ctx.seed, &[crate::rng::tag("c17-warm-cache")]));
    if wrng.chance(1, 3) {
        let o = sim.get_closest_nodes(writer, target);
        sim.run_ops(&[o], sim.now() + 60 * SEC);
        sim.run_for(wrng.range(0, 5) * SEC);
        report.probe("warm_cache_runs", 1);
    }
    let op1 = sim.put_mutable(writer, item1.clone(), None);
    let t0 = sim.now();
    // sometimes a find_node for the same target runs in between (its result replaces the cached
    // closest nodes of the put's lookup with token-less ones)
    let find_between = rng.chance(1, 5);
    if find_between {
        let at = t0 + rng.range(0, delta / MS + 1) * MS;
        sim.at(at, move |sim| {
            sim.find_node(writer, target);
        });
        report.probe("find_node_between_the_puts", 1);
    }
    sim.run_until(t0 + delta);
    // phase of the first call at this instant (for reach statistics)
    let stores_sent = sim.with_trace(|tr| tr.iter().any(|d| d.from_host == Some(writer) && d.t_send >= t0 && Krpc::parse(&d.bytes).map(|k| k.query_name() == Some("put") && k.target() == Some(target)).unwrap_or(false)));
    let op1_done_before = sim.op_done(op1);
    let op2 = sim.put_mutable(writer, item2.clone(), cas2);
    let both = sim.run_ops(&[op1, op2], sim.now() + 120 * SEC);
    let (issued_step2, done_step1) = (sim.with_op(op2, |o| o.issued_step), sim.with_op(op1, |o| o.done_step));
    // exact: the first call was still unresolved when the actor consumed the second message
    // A step is: tail of the previous tick (may complete the first call) -> consume one message
    // -> head of the next tick -> park. So completion in the very step that consumes the second
    // message normally precedes the consumption; only if that step loops more than once
    // (a datagram was already queued) can it follow it: that one case is judged by neither rule.
    let ambiguous = done_step1 == Some(issued_step2 + 1);
    let in_flight = done_step1.map(|s| s > issued_step2 + 1).unwrap_or(true);
    let phase = if !in_flight {
        "after-completion"
    } else if op1_done_before {
        "after-completion"
    } else if stores_sent {
        "store-phase"
    } else if delta == 0 {
        "same-step"
    } else {
        "lookup-phase"
    };
    report.probe(&format!("phase_{phase}"), 1);
    let r1 = res_of(&sim, op1);
    let r2 = res_of(&sim, op2);
    // Families 5/6: the verdict depends on who was actually asked to store (a storer whose `get`
    // reply came later than the adaptive request timeout is legitimately left out), so it is
    // computed per store round from the recorded datagrams: 3xx iff count >= recipients / 2 + 1.
    let odd_round = std::cell::Cell::new(false);
    let (storers_result, storers_result2) = if family == 5 || family == 6 || (family == 7 && n >= 3) || (family == 8 && n >= 5) {
        let mut rounds: Vec<(u64, Vec<usize>)> = vec![];
        sim.with_trace(|tr| {
            for d in tr.iter().filter(|d| d.from_host == Some(writer) && d.t_send >= t0) {
                if Krpc::parse(&d.bytes).map(|k| k.query_name() == Some("put") && k.target() == Some(target)).unwrap_or(false) {
                    if let Some(i) = addrs.iter().position(|a| *a == d.dst) {
                        match rounds.last_mut() {
                            Some((t, v)) if *t == d.t_send => v.push(i),
                            _ => rounds.push((d.t_send, vec![i])),
                        }
                    }
                }
            }
        });
        let verdict = |r: &Vec<usize>| {
            let c301 = r.iter().filter(|i| matches!(reply_plan[**i], PutReply::Error(301))).count();
            let c302 = r.iter().filter(|i| matches!(reply_plan[**i], PutReply::Error(302))).count();
            let half = r.len() / 2 + 1;
            if c301 >= half {
                Res::Cas
            } else if c302 >= half {
                Res::NotMostRecent
            } else {
                Res::Ok
            }
        };
        if rounds.iter().any(|r| r.1.len() != n) {
            report.probe("storer_left_out_of_a_store_round", 1);
        }
        // a round without a majority and without a single ack ends with "the most common error",
        // which depends on arrival order: not judged
        for r in &rounds {
            let acks = r.1.iter().filter(|i| matches!(reply_plan[**i], PutReply::Ack)).count();
            if acks == 0 && verdict(&r.1) == Res::Ok {
                odd_round.set(true);
            }
            // a 3xx majority that only becomes complete with the very last outstanding reply of the round,
            // after an acknowledgement, is reported as Ok by design (the put is done first): not judged
            // (thorough-tier false alarm of family 8 when a straggler was left out of the round)
            if acks > 0 && verdict(&r.1) != Res::Ok {
                let writer_addr = sim.node_addr(writer);
                let mut arrivals: Vec<(u64, usize)> = sim.with_trace(|tr| {
                    r.1.iter()
                        .filter_map(|i| tr.iter().find(|d| d.src == addrs[*i] && d.dst == writer_addr && d.t_send >= r.0 && d.fate == Fate::Delivered && Krpc::parse(&d.bytes).map(|k| !k.is_query()).unwrap_or(false)).map(|d| (d.t_deliver.unwrap_or(d.t_send), *i)))
                        .collect()
                });
                arrivals.sort();
                let half = r.1.len() / 2 + 1;
                let (mut c301, mut c302) = (0usize, 0usize);
                let mut complete_at = None;
                for (j, (_, i)) in arrivals.iter().enumerate() {
                    match reply_plan[*i] {
                        PutReply::Error(301) => c301 += 1,
                        PutReply::Error(302) => c302 += 1,
                        _ => {}
                    }
                    if complete_at.is_none() && (c301 >= half || c302 >= half) {
                        complete_at = Some(j);
                    }
                }
                if complete_at.map(|j| j + 1 == r.1.len()).unwrap_or(true) {
                    odd_round.set(true);
                    report.probe("majority_completed_by_the_last_reply", 1);
                }
            }
        }
        match (rounds.first(), rounds.last()) {
            (Some(a), Some(b)) => (verdict(&a.1), verdict(&b.1)),
            _ => (storers_result.clone(), storers_result.clone()),
        }
    } else {
        (storers_result.clone(), storers_result)
    };

    let ambiguous = ambiguous || odd_round.get();
    let what = format!(
        "first: seq {s1}; second: relation={} seq {s2} cas={cas2:?} at +{}ms ({phase}, in_flight={in_flight}); storers family {family} -> {storers_result:?}; results first={r1:?} second={r2:?}",
        ["identical", "lower-seq", "equal-seq-other-value", "higher-seq"][relation as usize],
        delta / MS
    );
    if let Res::Panic(p) = &r1 {
        report.violate("api-panic", "put-mutable-panicked", format!("first call panicked: {p}; {what}"));
    } else if let Res::Panic(p) = &r2 {
        report.violate("api-panic", "put-mutable-panicked", format!("second call panicked: {p}; {what}"));
    } else if let Some(d) = sim.died(writer) {
        report.violate("node-died", "writer-actor-panicked", format!("writer died: {d}; {what}"));
    } else if !both {
        report.violate("hang", "put-mutable-did-not-return", format!("a call did not return within 120 s; {what}"));
    } else if ambiguous {
        report.probe("ambiguous_same_step_completion", 1);
    } else if in_flight {
        // storers that answer 3xx to everything may complete the first call before the rule table matters
        let expect: Vec<Res> = match (relation, cas_kind) {
            (0, _) => vec![storers_result.clone()],
            (1, _) => vec![Res::NotMostRecent],
            (_, 0) => vec![Res::ConflictRisk],
            (_, 1) => vec![storers_result2.clone(), storers_result.clone()],
            _ => vec![Res::Cas],
        };
        if !expect.contains(&r2) {
            let key = match (relation, cas_kind) {
                (0, _) => "identical-item-not-accepted",
                (1, _) => "lower-seq-not-rejected-as-not-most-recent",
                (_, 0) => "different-item-without-cas-not-conflict-risk",
                (_, 1) => "cas-matching-inflight-seq-not-accepted",
                _ => "cas-mismatch-not-cas-failed",
            };
            report.violate("rule-table", key, format!("expected {expect:?} for the second call; {what}"));
        } else if (relation == 0 || cas_kind == 1) && relation != 1 && r1 != storers_result && !(relation != 0 && r1 == storers_result2) {
            report.violate("rule-table", "first-call-result-wrong-after-accepted-second", format!("expected {storers_result:?} for the first call; {what}"));
        }
        report.nontrivial = true;
    } else {
        // not in flight: no local error; the result is the storers'
        if r2 == Res::ConflictRisk {
            report.violate("rule-table", "conflict-risk-without-inflight-put", format!("ConflictRisk although the first call had completed; {what}"));
        } else if r2 != storers_result2 {
            report.violate("rule-table", "second-call-result-not-storers-verdict", format!("expected {storers_result2:?}; {what}"));
        }
        if r1 != storers_result {
            report.violate("rule-table", "first-call-result-not-storers-verdict", format!("expected {storers_result:?} for the first call; {what}"));
        }
    }
    // "supersedes the in-flight write" / "both calls succeed": a call that returned Ok has had its
    // own item sent to the storers
    if report.violation.is_none() {
        let sent: Vec<(i64, Vec<u8>)> = sim.with_trace(|tr| {
            tr.iter()
                .filter(|d| d.from_host == Some(writer) && d.t_send >= t0)
                .filter_map(|d| Krpc::parse(&d.bytes))
                .filter(|k| k.query_name() == Some("put") && k.target() == Some(target))
                .map(|k| (k.int_field("seq").unwrap_or(-1), k.bytes_field("v").map(|v| v.to_vec()).unwrap_or_default()))
                .collect()
        });
        // ... and a call refused with ConflictRisk (a purely local verdict) has NOT: the caller was told that
        // nothing was written
        if r2 == Res::ConflictRisk && relation != 0 && sent.iter().any(|(s, v)| *s == s2 && v.as_slice() == v2) {
            report.violate("rule-table", "refused-item-was-sent-to-the-storers", format!("the second call returned ConflictRisk, yet store requests carrying its item (seq {s2}) went out; {what}"));
        } else if r2 == Res::Ok && !sent.iter().any(|(s, v)| *s == s2 && v.as_slice() == v2) {
            report.violate("rule-table", "second-call-ok-but-its-item-never-sent", format!("the second call returned Ok but no store request carried its item (seq {s2}); {what}"));
        } else if r1 == Res::Ok && !(in_flight && relation >= 2 && cas_kind == 1) && !ambiguous && !sent.iter().any(|(s, v)| *s == s1 && v.as_slice() == b"first value") {
            report.violate("rule-table", "first-call-ok-but-its-item-never-sent", format!("the first call returned Ok but no store request carried its item (seq {s1}); {what}"));
        }
    }
    report.fingerprint = crate::rng::key(sim.order_fingerprint(), &[relation, cas_kind, family, in_flight as u64]);
    report.sample = Some(json!({"scenario": what}));
    report.plan_dump = Some(what);
    finish(&sim, report)
}

pub fn property() -> Property {
    Property {
        id: "C17",
        run,
        budget: |t| match t {
            Tier::Quick => 30000,
            Tier::Thorough => 500_000,
        },
        wall_cap_s: |t| match t {
            Tier::Quick => 60.0,
            Tier::Thorough => 1500.0,
        },
        info: || PropInfo {
            floors: vec![],
            rule: "one run = a writer with 3..8 scripted storers (families: all ack, all 301, all 302, all silent, one 3xx among acks; delays 0..250 ms); first put_mutable at t0, second at t0+delta (delta in {0, <50 ms, <1.2 s, <2.5 s, <6 s}), relation in {identical, lower seq, equal seq other value, higher seq} x cas in {none, = in-flight seq, other}; 1/8 of the runs overlap two identical non-mutable puts instead. 'In flight' is decided exactly from the step counters (first future unresolved when the actor consumed the second message). Non-trivial = the second call landed while the first was in flight (or a non-mutable overlap); distinct = delivery order x relation x cas x family".into(),
            assumptions: vec!["loss-free network; storers answer every store request the same way".into()],
        },
    }
}
