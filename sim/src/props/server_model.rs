//! One real server-mode node driven over the simulated wire by raw clients, checked in
//! lock-step (in the order the server consumed the datagrams) against a reference model of a
//! BEP5/BEP44 storage node. Used by C03 (authorised, valid writes only), C04 (seq / cas rules),
//! and C15 (token binding and expiry).

use std::cell::RefCell;
use std::collections::{BTreeMap, BTreeSet};
use std::net::{Ipv4Addr, SocketAddrV4};
use std::rc::Rc;

use dht::verif::Snapshot;
use dht::{RequestFilter, RequestSpecific, ServerSettings};
use serde_json::json;

use crate::bencode::Value;
use crate::krpc::{self, Id, Item, Krpc, MsgOpts};
use crate::props::common::*;
use crate::props::{Report, RunCtx, Tier};
use crate::rng::Rng;
use crate::sim::*;

#[derive(Clone, Copy, Debug, PartialEq)]
pub enum Flavor {
    C03,
    C04,
    C15,
}

#[derive(Debug, Clone)]
struct VetoFilter {
    ip: Ipv4Addr,
    /// veto only the write requests of that IP (a read-only gateway): the verdict depends on the request
    writes_only: bool,
}

impl RequestFilter for VetoFilter {
    fn allow_request(&self, request: &RequestSpecific, from: SocketAddrV4) -> bool {
        if *from.ip() != self.ip {
            return true;
        }
        // (the request-type enum is not nameable from outside the crate; its Debug form is)
        self.writes_only && !format!("{:?}", request.request_type).starts_with("Put")
    }
}

// ---------------------------------------------------------------------------- LRU model

/// LRU store model with a tolerant victim rule: an eviction is accepted unless some survivor
/// was certainly used less recently than the victim.
struct Lru<V> {
    cap: usize,
    /// key -> (value, last definite use, last possible use)
    map: BTreeMap<Vec<u8>, (V, u64, u64)>,
    inserted_new: bool,
    was_full: bool,
}

impl<V> Lru<V> {
    fn new(cap: usize) -> Self {
        Lru {
            cap,
            map: BTreeMap::new(),
            inserted_new: false,
            was_full: false,
        }
    }
    fn get(&self, k: &[u8]) -> Option<&V> {
        self.map.get(k).map(|e| &e.0)
    }
    fn touch(&mut self, k: &[u8], t: u64, definite: bool) {
        if let Some(e) = self.map.get_mut(k) {
            if definite {
                e.1 = t;
            }
            e.2 = t;
        }
    }
    fn put(&mut self, k: &[u8], v: V, t: u64) {
        if !self.map.contains_key(k) {
            self.inserted_new = true;
            self.was_full = self.map.len() >= self.cap;
        }
        self.map.insert(k.to_vec(), (v, t, t));
    }
    fn begin_step(&mut self) {
        self.inserted_new = false;
        self.was_full = false;
    }
    /// Compare key sets with the implementation's store after the step.
    fn reconcile(&mut self, actual: &BTreeSet<Vec<u8>>, what: &str, newest: Option<&[u8]>) -> Result<u64, String> {
        if actual.len() > self.cap {
            return Err(format!("{what}: {} entries exceed capacity {}", actual.len(), self.cap));
        }
        for k in actual {
            if !self.map.contains_key(k) {
                return Err(format!("{what}: holds {} which no accepted write put there", krpc::hex(k)));
            }
        }
        let missing: Vec<Vec<u8>> = self.map.keys().filter(|k| !actual.contains(*k)).cloned().collect();
        if missing.is_empty() {
            return Ok(0);
        }
        if !(self.inserted_new && self.was_full) {
            return Err(format!(
                "{what}: entry {} disappeared without a capacity eviction (new key inserted={}, store was full={})",
                krpc::hex(&missing[0]),
                self.inserted_new,
                self.was_full
            ));
        }
        if missing.len() > 1 {
            return Err(format!("{what}: {} entries evicted by one insertion", missing.len()));
        }
        let victim = &missing[0];
        if Some(victim.as_slice()) == newest {
            return Err(format!("{what}: the entry just written was itself evicted"));
        }
        let v_def = self.map[victim].1;
        for (k, e) in &self.map {
            if k != victim && Some(k.as_slice()) != newest && e.2 < v_def {
                return Err(format!(
                    "{what}: evicted {} (used at #{v_def}) although {} was used less recently (#{})",
                    krpc::hex(victim),
                    krpc::hex(k),
                    e.2
                ));
            }
        }
        self.map.remove(victim);
        Ok(1)
    }
}

// ---------------------------------------------------------------------------- reference model

#[derive(Clone, Debug, PartialEq)]
struct MutVal {
    k: Vec<u8>,
    seq: i64,
    v: Vec<u8>,
    sig: Vec<u8>,
}

struct TokenRec {
    bytes: Vec<u8>,
    ip: Ipv4Addr,
    at: u64,
}

const MIN5: u64 = 5 * 60 * SEC;

#[derive(Debug, PartialEq, Clone, Copy)]
enum TokVerdict {
    MustAccept,
    MustReject,
    Either,
}

struct Model {
    veto: Option<Ipv4Addr>,
    veto_writes_only: bool,
    imm: Lru<Vec<u8>>,
    mutable: Lru<MutVal>,
    peers: Lru<Lru<SocketAddrV4>>,
    signed: Lru<Lru<(u64, Vec<u8>)>>,
    max_peers: usize,
    tokens: Vec<TokenRec>,
    req_times: Vec<u64>,
    /// Lazy rotation, exactly: the secrets rotate when a request is handled more than five minutes after
    /// the previous rotation (or the start). Possible worlds (time of the last rotation, rotations so far) -
    /// more than one only when a request falls within the slack around a five-minute boundary.
    rot_worlds: Vec<(u64, u32)>,
    /// rotation count(s) when each request was handled, per world index is not kept: per request the set of
    /// possible counts
    rot_counts: Vec<(u64, Vec<u32>)>,
    probes: BTreeMap<&'static str, u64>,
}

const ROT_SLACK: u64 = 20 * MS;

type Fail = (String, String, String);

fn fail(class: &str, key: &str, detail: String) -> Fail {
    (class.to_string(), key.to_string(), detail)
}

impl Model {
    fn probe(&mut self, name: &'static str) {
        *self.probes.entry(name).or_insert(0) += 1;
    }

    fn token_verdict(&self, ip: Ipv4Addr, bytes: &[u8], now: u64) -> TokVerdict {
        let youngest = self
            .tokens
            .iter()
            .filter(|t| t.bytes == bytes && t.ip == ip)
            .map(|t| t.at)
            .max();
        let Some(at) = youngest else {
            return TokVerdict::MustReject;
        };
        let age = now.saturating_sub(at);
        if age <= MIN5 {
            return TokVerdict::MustAccept;
        }
        // largest gap between consecutive handled requests in [issue, now]
        let mut gmax = 0u64;
        let mut prev = at;
        for t in self.req_times.iter().filter(|t| **t > at && **t <= now) {
            gmax = gmax.max(t - prev);
            prev = *t;
        }
        gmax = gmax.max(now - prev);
        if age > 2 * MIN5 + 2 * gmax + SEC {
            return TokVerdict::MustReject;
        }
        // exactly: the token dies with the second rotation after its issue. Rotations happen at handled
        // requests only, so count them: in every possible world at least two between issue and now?
        let count_at = |t: u64| self.rot_counts.iter().rev().find(|c| c.0 == t).map(|c| c.1.clone());
        if let (Some(issue), Some(cur)) = (count_at(at), self.rot_counts.last().filter(|c| c.0 == now).map(|c| c.1.clone())) {
            let max_issue = issue.iter().copied().max().unwrap_or(0);
            let min_now = cur.iter().copied().min().unwrap_or(0);
            if min_now >= max_issue + 2 {
                return TokVerdict::MustReject;
            }
        }
        TokVerdict::Either
    }

    /// Advance the lazy-rotation worlds for a request handled at `mono` (server clock).
    fn note_rotation(&mut self, mono: u64) {
        let mut next: Vec<(u64, u32)> = vec![];
        for (last, n) in &self.rot_worlds {
            let el = mono.saturating_sub(*last);
            if el > MIN5 + ROT_SLACK {
                next.push((mono, n + 1));
            } else if el + ROT_SLACK < MIN5 {
                next.push((*last, *n));
            } else {
                next.push((mono, n + 1));
                next.push((*last, *n));
            }
        }
        next.sort();
        next.dedup();
        if next.len() > 64 {
            // too ambiguous to follow: forget the exact model for this run
            next.clear();
        }
        self.rot_worlds = next;
        let counts: Vec<u32> = self.rot_worlds.iter().map(|w| w.1).collect();
        if !counts.is_empty() {
            self.rot_counts.push((mono, counts));
        }
    }

    /// Process one request as consumed by the server. `reply` is what the server sent back.
    #[allow(clippy::too_many_arguments)]
    fn process(
        &mut self,
        n: u64,
        mono: u64,
        wall_us: u64,
        from: SocketAddrV4,
        req: &Krpc,
        reply: Option<&Krpc>,
    ) -> Result<(), Fail> {
        self.imm.begin_step();
        self.mutable.begin_step();
        self.peers.begin_step();
        self.signed.begin_step();
        for inner in self.peers.map.values_mut() {
            inner.0.begin_step();
        }
        for inner in self.signed.map.values_mut() {
            inner.0.begin_step();
        }

        let q = req.query_name().unwrap_or("").to_string();
        let is_write = matches!(q.as_str(), "put" | "announce_peer" | "announce_signed_peer");
        if Some(*from.ip()) == self.veto && (!self.veto_writes_only || is_write) {
            self.probe("filtered_request");
            if self.veto_writes_only {
                self.probe("filtered_write_of_a_source_whose_reads_are_allowed");
            }
            if reply.is_some() {
                return Err(fail("filter", "filtered-request-answered", format!("request {q} from vetoed {from} was answered")));
            }
            return Ok(());
        }
        self.req_times.push(mono);
        self.note_rotation(mono);
        let Some(reply) = reply else {
            return Err(fail("reply", "no-reply", format!("well-formed {q} from {from} got no reply")));
        };
        // every token handed out is recorded
        if let Some(tok) = reply.token() {
            self.tokens.push(TokenRec {
                bytes: tok.to_vec(),
                ip: *from.ip(),
                at: mono,
            });
        }
        let is_ack = reply.is_response();
        let err = reply.error_code();
        match q.as_str() {
            "ping" | "find_node" => {
                if !is_ack {
                    return Err(fail("reply", "read-error", format!("{q} answered with error {err:?}")));
                }
            }
            "get" => {
                let target = req.id_field("target").unwrap();
                let seq = req.int_field("seq");
                if !is_ack {
                    return Err(fail("reply", "read-error", format!("get answered with error {err:?}")));
                }
                let got_v = reply.bytes_field("v");
                let got_seq = reply.int_field("seq");
                let got_k = reply.bytes_field("k");
                let imm = self.imm.get(&target).cloned();
                let mutv = self.mutable.get(&target).cloned();
                if seq.is_none() && imm.is_some() {
                    self.imm.touch(&target, n, true);
                    self.probe("get_immutable_hit");
                    if got_v != imm.as_deref() || got_k.is_some() {
                        return Err(fail("get", "get-immutable-wrong", format!("get({}) returned {:?}, stored immutable is {:?}", hex8(&target), got_v.map(krpc::hex), imm.map(|v| krpc::hex(&v)))));
                    }
                } else if let Some(m) = mutv {
                    self.mutable.touch(&target, n, true);
                    if seq.map(|s| s >= m.seq).unwrap_or(false) {
                        self.probe("get_mutable_seq_filtered");
                        if got_v.is_some() || got_seq != Some(m.seq) {
                            return Err(fail("get", "get-seq-filter", format!("get({}, seq={seq:?}) with stored seq {} returned v={:?} seq={got_seq:?}", hex8(&target), m.seq, got_v.map(krpc::hex))));
                        }
                    } else {
                        self.probe("get_mutable_hit");
                        let same = got_v == Some(&m.v) && got_seq == Some(m.seq) && got_k == Some(&m.k) && reply.bytes_field("sig") == Some(&m.sig);
                        if !same {
                            return Err(fail("get", "get-mutable-wrong", format!("get({}) returned seq={got_seq:?} v={:?}, last accepted item has seq={} v={}", hex8(&target), got_v.map(krpc::hex), m.seq, krpc::hex(&m.v))));
                        }
                    }
                } else {
                    self.probe("get_miss");
                    if got_v.is_some() || got_seq.is_some() {
                        return Err(fail("get", "get-phantom", format!("get({}) returned v={:?} seq={got_seq:?} although nothing is stored", hex8(&target), got_v.map(krpc::hex))));
                    }
                }
            }
            "get_peers" => {
                let ih = req.id_field("info_hash").unwrap();
                if !is_ack {
                    return Err(fail("reply", "read-error", format!("get_peers answered with error {err:?}")));
                }
                let values = reply.values();
                let max_peers = self.max_peers;
                match self.peers.map.get(ih.as_slice()) {
                    Some(inner) if !inner.0.map.is_empty() => {
                        let mut want: Vec<SocketAddrV4> = inner.0.map.values().map(|e| e.0).collect();
                        want.sort();
                        let mut got = values.clone().unwrap_or_default();
                        got.sort();
                        let _ = max_peers;
                        if want.len() < 20 {
                            if got != want {
                                return Err(fail("get_peers", "get-peers-wrong", format!("get_peers({}) returned {got:?}, announced peers are {want:?}", hex8(&ih))));
                            }
                        } else if got.is_empty() || got.iter().any(|g| !want.contains(g)) || got.len() > 20 {
                            return Err(fail("get_peers", "get-peers-wrong", format!("get_peers({}) returned {got:?}, not a sample of the announced peers", hex8(&ih))));
                        }
                        self.peers.touch(&ih, n, true);
                        self.probe("get_peers_hit");
                    }
                    _ => {
                        if values.map(|v| !v.is_empty()).unwrap_or(false) {
                            return Err(fail("get_peers", "get-peers-phantom", format!("get_peers({}) returned peers although none were accepted", hex8(&ih))));
                        }
                    }
                }
            }
            "get_signed_peers" => {
                let ih = req.id_field("info_hash").unwrap();
                if !is_ack {
                    return Err(fail("reply", "read-error", format!("get_signed_peers answered with error {err:?}")));
                }
                let got = reply.signed_peers().unwrap_or_default();
                match self.signed.map.get(ih.as_slice()) {
                    Some(inner) if !inner.0.map.is_empty() => {
                        let want: BTreeSet<(Vec<u8>, u64, Vec<u8>)> = inner.0.map.iter().map(|(k, e)| (k.clone(), e.0 .0, e.0 .1.clone())).collect();
                        let gots: BTreeSet<(Vec<u8>, u64, Vec<u8>)> = got.iter().map(|(k, t, s)| (k.to_vec(), *t, s.to_vec())).collect();
                        let ok = if want.len() < 10 { gots == want } else { !gots.is_empty() && gots.is_subset(&want) && got.len() <= 10 };
                        if !ok {
                            return Err(fail("get_signed_peers", "get-signed-wrong", format!("get_signed_peers({}) returned {} entries that are not the accepted announcements ({} stored)", hex8(&ih), got.len(), want.len())));
                        }
                        self.signed.touch(&ih, n, true);
                        self.probe("get_signed_hit");
                    }
                    _ => {
                        if !got.is_empty() {
                            return Err(fail("get_signed_peers", "get-signed-phantom", format!("get_signed_peers({}) returned entries although none were accepted", hex8(&ih))));
                        }
                    }
                }
            }
            "put" | "announce_peer" | "announce_signed_peer" => {
                let token = req.token().unwrap_or(&[]).to_vec();
                let tv = self.token_verdict(*from.ip(), &token, mono);
                // (code, mandatory) payload defects
                let mut defects: Vec<(Vec<i64>, bool)> = vec![];
                let any4 = vec![203, 205, 206, 207];
                let mut apply: Option<Box<dyn FnOnce(&mut Model)>> = None;
                let mut what = q.clone();
                if q == "put" {
                    let target = req.id_field("target").unwrap();
                    let v = req.bytes_field("v").unwrap().to_vec();
                    if let Some(k) = req.bytes_field("k") {
                        what = "put_mutable".into();
                        let k = k.to_vec();
                        let sig = req.bytes_field("sig").unwrap_or(&[]).to_vec();
                        let seq = req.int_field("seq").unwrap_or(0);
                        let cas = req.int_field("cas");
                        let salt = req.bytes_field("salt").map(|s| s.to_vec());
                        if v.len() > 1000 {
                            defects.push((vec![205], true));
                        }
                        if salt.as_ref().map(|s| s.len() > 64).unwrap_or(false) {
                            defects.push((vec![207], true));
                        }
                        let mut k32 = [0u8; 32];
                        let mut s64 = [0u8; 64];
                        let sig_ok = k.len() == 32 && sig.len() == 64 && {
                            k32.copy_from_slice(&k);
                            s64.copy_from_slice(&sig);
                            krpc::verify(&k32, &krpc::mutable_signable(seq, &v, salt.as_deref()), &s64)
                        };
                        if !sig_ok {
                            defects.push((vec![206, 203], true));
                        }
                        if k.len() == 32 && krpc::mutable_target(&k32, salt.as_deref()) != target {
                            defects.push((any4.clone(), true));
                        }
                        // the pre-read of the stored item may or may not count as a use
                        self.mutable.touch(&target, n, false);
                        match self.mutable.get(&target) {
                            Some(stored) => {
                                if let Some(c) = cas {
                                    if c != stored.seq {
                                        defects.push((vec![301], true));
                                    }
                                }
                                if seq < stored.seq {
                                    defects.push((vec![302], true));
                                } else if seq == stored.seq && (stored.v != v || stored.sig != sig) {
                                    defects.push((vec![302], false));
                                }
                            }
                            None => {
                                // nothing stored: there is no stored seq for the cas to differ from, the
                                // put is a valid first write and is accepted (an earlier version tolerated
                                // a 301 here and so missed a seeded defect that rejects every such put)
                                if cas.is_some() {
                                    self.probe("cas_put_on_empty_slot");
                                }
                            }
                        }
                        let mv = MutVal { k, seq, v, sig };
                        apply = Some(Box::new(move |m: &mut Model| {
                            m.mutable.put(&target, mv, n);
                            m.probe("mutable_write_accepted");
                        }));
                    } else {
                        what = "put_immutable".into();
                        if v.len() > 1000 {
                            defects.push((vec![205], true));
                        }
                        if krpc::immutable_target(&v) != target {
                            defects.push((any4.clone(), true));
                        }
                        apply = Some(Box::new(move |m: &mut Model| {
                            m.imm.put(&target, v, n);
                            m.probe("immutable_write_accepted");
                        }));
                    }
                } else if q == "announce_peer" {
                    let ih = req.id_field("info_hash").unwrap();
                    let rid = req.id().unwrap();
                    let port = req.int_field("port").unwrap_or(0) as u16;
                    let implied = req.int_field("implied_port").map(|i| i != 0).unwrap_or(false);
                    let addr = if implied { from } else { SocketAddrV4::new(*from.ip(), port) };
                    let max_peers = self.max_peers;
                    apply = Some(Box::new(move |m: &mut Model| {
                        if !m.peers.map.contains_key(ih.as_slice()) {
                            m.peers.put(&ih, Lru::new(max_peers), n);
                        } else {
                            m.peers.touch(&ih, n, true);
                        }
                        m.peers.map.get_mut(ih.as_slice()).unwrap().0.put(&rid, addr, n);
                        m.probe("peer_announce_accepted");
                    }));
                } else {
                    let ih = req.id_field("info_hash").unwrap();
                    let k = req.bytes_field("k").unwrap_or(&[]).to_vec();
                    let sig = req.bytes_field("sig").unwrap_or(&[]).to_vec();
                    let t = req.int_field("t").unwrap_or(0) as u64;
                    let mut k32 = [0u8; 32];
                    let mut s64 = [0u8; 64];
                    let sig_ok = k.len() == 32 && sig.len() == 64 && {
                        k32.copy_from_slice(&k);
                        s64.copy_from_slice(&sig);
                        krpc::verify(&k32, &krpc::signed_announce_signable(&ih, t), &s64)
                    };
                    if !sig_ok {
                        defects.push((any4.clone(), true));
                    }
                    let diff = wall_us.abs_diff(t);
                    if diff > 45_000_000 {
                        defects.push((any4.clone(), true));
                        self.probe("signed_timestamp_outside_window");
                    } else if diff > 40_000_000 {
                        self.probe("signed_timestamp_near_window_edge");
                    }
                    let max_peers = self.max_peers;
                    apply = Some(Box::new(move |m: &mut Model| {
                        if !m.signed.map.contains_key(ih.as_slice()) {
                            m.signed.put(&ih, Lru::new(max_peers), n);
                        } else {
                            m.signed.touch(&ih, n, true);
                        }
                        m.signed.map.get_mut(ih.as_slice()).unwrap().0.put(&k, (t, sig), n);
                        m.probe("signed_announce_accepted");
                    }));
                }
                let mandatory = defects.iter().any(|d| d.1);
                match tv {
                    TokVerdict::MustAccept => self.probe("token_must_accept"),
                    TokVerdict::MustReject => self.probe("token_must_reject"),
                    TokVerdict::Either => self.probe("token_either"),
                }
                if is_ack {
                    if tv == TokVerdict::MustReject {
                        let known_elsewhere = self.tokens.iter().any(|t| t.bytes == token);
                        let key = if known_elsewhere { "write-accepted-with-foreign-or-expired-token" } else { "write-accepted-with-unknown-token" };
                        return Err(fail("token", key, format!("{what} from {from} acknowledged although its token {} was not issued to that IP recently", krpc::hex(&token))));
                    }
                    if mandatory {
                        let codes: Vec<_> = defects.iter().filter(|d| d.1).map(|d| d.0.clone()).collect();
                        let key = format!("invalid-{what}-accepted-{}", codes.iter().map(|c| c[0].to_string()).collect::<Vec<_>>().join("-"));
                        return Err(fail("invalid-write-accepted", &key, format!("{what} from {from} acknowledged although invalid (applicable error codes {codes:?})")));
                    }
                    if let Some(a) = apply {
                        a(self);
                    }
                } else {
                    let code = err.unwrap_or(0);
                    let by_token = code == 203 && tv != TokVerdict::MustAccept;
                    let by_payload = defects.iter().any(|d| d.0.contains(&code));
                    if !(by_token || by_payload) {
                        let key = if tv == TokVerdict::MustAccept && defects.is_empty() { format!("valid-{what}-rejected") } else { format!("{what}-wrong-error-code") };
                        return Err(fail("valid-write-rejected", &key, format!("{what} from {from} rejected with {code} (token verdict {tv:?}, payload defects {:?})", defects)));
                    }
                    self.probe("write_rejected");
                    if by_token && !by_payload {
                        self.probe("write_rejected_by_token");
                    }
                }
            }
            _ => {}
        }
        Ok(())
    }

    fn reconcile(&mut self, snap: &Snapshot, newest: (Option<Id>, Option<Id>, Option<Id>, Option<Id>)) -> Result<(), Fail> {
        let s = &snap.store;
        let mk = |r: Result<u64, String>, key: &str| r.map_err(|d| fail("store", key, d));
        // immutable
        let keys: BTreeSet<Vec<u8>> = s.immutable.iter().map(|(k, _)| k.to_vec()).collect();
        let ev = mk(self.imm.reconcile(&keys, "immutable store", newest.0.as_ref().map(|x| x.as_slice())), "immutable-store-diverged")?;
        for (k, v) in &s.immutable {
            if self.imm.get(k) != Some(v) {
                return Err(fail("store", "immutable-store-diverged", format!("immutable {} holds a value no accepted write stored", hex8(k))));
            }
        }
        for _ in 0..ev {
            self.probe("eviction_observed");
        }
        // mutable
        let keys: BTreeSet<Vec<u8>> = s.mutable.iter().map(|(k, _)| k.to_vec()).collect();
        let ev = mk(self.mutable.reconcile(&keys, "mutable store", newest.1.as_ref().map(|x| x.as_slice())), "mutable-store-diverged")?;
        for (k, m) in &s.mutable {
            let want = self.mutable.get(k);
            let same = want.map(|w| w.seq == m.seq && w.v == m.value && w.k == m.key && w.sig == m.signature).unwrap_or(false);
            if !same {
                return Err(fail("store", "mutable-store-diverged", format!("mutable {} holds seq={} v={}, the model's last accepted item is {:?}", hex8(k), m.seq, krpc::hex(&m.value), want.map(|w| (w.seq, krpc::hex(&w.v))))));
            }
        }
        for _ in 0..ev {
            self.probe("eviction_observed");
        }
        // peers
        let keys: BTreeSet<Vec<u8>> = s.peers.iter().map(|(k, _)| k.to_vec()).collect();
        let ev = mk(self.peers.reconcile(&keys, "peers store", newest.2.as_ref().map(|x| x.as_slice())), "peers-store-diverged")?;
        for _ in 0..ev {
            self.probe("eviction_observed");
        }
        for (ih, list) in &s.peers {
            let inner = &mut self.peers.map.get_mut(ih.as_slice()).unwrap().0;
            let keys: BTreeSet<Vec<u8>> = list.iter().map(|(id, _)| id.to_vec()).collect();
            let ev = inner.reconcile(&keys, "peers of one info_hash", None).map_err(|d| fail("store", "peers-store-diverged", d))?;
            for (id, a) in list {
                if inner.get(id) != Some(a) {
                    return Err(fail("store", "peer-recorded-wrong", format!("peer stored for {} is {a}, the announce implies {:?}", hex8(ih), inner.get(id))));
                }
            }
            for _ in 0..ev {
                *self.probes.entry("eviction_observed").or_insert(0) += 1;
            }
        }
        // signed peers
        let keys: BTreeSet<Vec<u8>> = s.signed_peers.iter().map(|(k, _)| k.to_vec()).collect();
        let ev = mk(self.signed.reconcile(&keys, "signed peers store", newest.3.as_ref().map(|x| x.as_slice())), "signed-store-diverged")?;
        for _ in 0..ev {
            self.probe("eviction_observed");
        }
        for (ih, list) in &s.signed_peers {
            let inner = &mut self.signed.map.get_mut(ih.as_slice()).unwrap().0;
            let keys: BTreeSet<Vec<u8>> = list.iter().map(|(k, _)| k.to_vec()).collect();
            let ev = inner.reconcile(&keys, "signed peers of one info_hash", None).map_err(|d| fail("store", "signed-store-diverged", d))?;
            for (k, t) in list {
                if inner.get(k).map(|e| e.0) != Some(*t) {
                    return Err(fail("store", "signed-store-diverged", format!("signed announce stored for {} has timestamp {t}, not the accepted one", hex8(ih))));
                }
            }
            for _ in 0..ev {
                *self.probes.entry("eviction_observed").or_insert(0) += 1;
            }
        }
        Ok(())
    }
}

// ---------------------------------------------------------------------------- generator

struct Client {
    addr: SocketAddrV4,
    id: Id,
    log: RawLog,
    read: usize,
    /// (bytes, received at global time)
    tokens: Vec<(Vec<u8>, u64)>,
    next_tid: u32,
}

fn well_typed(k: &Krpc) -> bool {
    let Some(q) = k.query_name() else { return false };
    let id_ok = k.id().is_some();
    let b = |n: &str, len: Option<usize>| k.bytes_field(n).map(|x| len.map(|l| x.len() == l).unwrap_or(true)).unwrap_or(false);
    id_ok
        && match q {
            "ping" => true,
            "find_node" => b("target", Some(20)),
            "get" => b("target", Some(20)),
            "get_peers" | "get_signed_peers" => b("info_hash", Some(20)),
            "announce_peer" => b("info_hash", Some(20)) && b("token", None) && k.int_field("port").map(|p| (0..=65535).contains(&p)).unwrap_or(false) && k.int_field("implied_port").map(|p| (0..=255).contains(&p)).unwrap_or(true),
            "announce_signed_peer" => b("info_hash", Some(20)) && b("token", None) && b("k", Some(32)) && b("sig", Some(64)) && k.int_field("t").is_some(),
            "put" => {
                b("target", Some(20))
                    && b("token", None)
                    && b("v", None)
                    && (k.body.get("k").is_none() || (b("k", Some(32)) && b("sig", Some(64)) && k.int_field("seq").is_some()))
            }
            _ => false,
        }
}


/// C04, enumerated tier: every second run is one element of the exhaustive enumeration of request
/// histories over a small alphabet, decoded from the run index (independent of VERIF_SEED, which only
/// varies the surroundings: addresses, ids, clock skew, latencies). Alphabet (40 symbols):
/// put(key 0|1, seq 0|1|2, cas none|0|1, value v0|v1) and get(key 0|1, seq filter none|1), no salt,
/// one client with a fresh valid token, loss-free in-order delivery. Order: all histories of depth <= 2
/// with capacity 1, then with capacity 2, then depth 3 with capacity 1, then with capacity 2.
pub const C04_ALPHABET: u64 = 40;

#[derive(Clone, Copy, Debug)]
pub enum C04Sym {
    Put { key: usize, seq: i64, cas: Option<i64>, val: usize },
    Get { key: usize, filter: Option<i64> },
}

pub fn c04_sym(d: u64) -> C04Sym {
    if d < 36 {
        C04Sym::Put { key: (d % 2) as usize, seq: ((d / 2) % 3) as i64, cas: match (d / 6) % 3 { 0 => None, 1 => Some(0), _ => Some(1) }, val: (d / 18) as usize }
    } else {
        let g = d - 36;
        C04Sym::Get { key: (g % 2) as usize, filter: if g / 2 == 0 { None } else { Some(1) } }
    }
}

/// (capacity, history) of enumeration element `e`, None beyond the enumerated space.
pub fn c04_enumerated(e: u64) -> Option<(usize, Vec<C04Sym>)> {
    let a = C04_ALPHABET;
    let shallow = a + a * a; // depth 1 and 2
    let deep = a * a * a;
    let (cap, depth, mut idx) = if e < 2 * shallow {
        let cap = 1 + (e / shallow) as usize;
        let w = e % shallow;
        if w < a {
            (cap, 1, w)
        } else {
            (cap, 2, w - a)
        }
    } else if e < 2 * shallow + 2 * deep {
        let w = e - 2 * shallow;
        (1 + (w / deep) as usize, 3, w % deep)
    } else {
        return None;
    };
    let mut syms = vec![];
    for _ in 0..depth {
        syms.push(c04_sym(idx % a));
        idx /= a;
    }
    Some((cap, syms))
}

pub fn run(ctx: &RunCtx, flavor: Flavor) -> Report {
    let mut report = Report::default();
    let mut rng = Rng::new(ctx.seed);
    let mut cfg = rng.fork("cfg");
    let enumerated: Option<(usize, Vec<C04Sym>)> = if flavor == Flavor::C04 && ctx.index % 2 == 1 { c04_enumerated(ctx.index / 2) } else { None };

    // ---- swarm configuration
    let net = NetCfg {
        latency_min_us: 500,
        latency_max_us: cfg.range(2_000, 40_000),
        dup_ppm: if cfg.chance(1, 2) { cfg.range(20_000, 250_000) as u32 } else { 0 },
        slow_ppm: if cfg.chance(1, 3) { cfg.range(20_000, 150_000) as u32 } else { 0 },
        drop_ppm: if cfg.chance(1, 4) { cfg.range(10_000, 80_000) as u32 } else { 0 },
        slow_extra_ms: (100, 2500),
        ..NetCfg::default()
    };
    // enumerated histories are delivered in order, once each
    let net = if enumerated.is_some() { NetCfg { dup_ppm: 0, slow_ppm: 0, drop_ppm: 0, ..net } } else { net };
    let sim = Sim::new(ctx.seed, net.clone());
    sim.set_snap_mode(SnapMode::OnConsume);
    let public = cfg.chance(1, 2);
    let server_ip = if public { pub_ip(&mut cfg) } else { priv_ip(0) };
    let small = |c: &mut Rng, default: usize| -> usize {
        match c.below(4) {
            0 => 1,
            1 => 2,
            2 => 3,
            _ => default,
        }
    };
    let mut settings = ServerSettings::default();
    match flavor {
        Flavor::C03 => {
            settings.max_info_hashes = small(&mut cfg, dht::MAX_INFO_HASHES);
            settings.max_peers_per_info_hash = small(&mut cfg, dht::MAX_PEERS);
            settings.max_immutable_values = small(&mut cfg, dht::MAX_VALUES);
            settings.max_mutable_values = small(&mut cfg, dht::MAX_VALUES);
        }
        Flavor::C04 => {
            settings.max_mutable_values = match cfg.below(3) {
                0 => 1,
                1 => 2,
                _ => dht::MAX_VALUES,
            };
            if let Some((cap, _)) = &enumerated {
                settings.max_mutable_values = *cap;
            }
        }
        Flavor::C15 => {}
    }
    // clients: close IPs, shared IP, unrelated IP
    let base = if public { pub_ip(&mut cfg) } else { priv_ip(100) };
    let b = u32::from(base);
    let n_clients = cfg.usize(2, 4);
    // an adversarially close second IP: last bit, any single bit, or only bits that BEP42's id
    // mask (0x030f3fff) ignores
    let flip: u32 = match cfg.below(4) {
        0 => 1,
        1 => 1 << cfg.below(32),
        2 => {
            let outside = !0x030f_3fffu32;
            let x = (cfg.range(1, u32::MAX as u64) as u32) & outside;
            if x == 0 {
                0x8000_0000
            } else {
                x
            }
        }
        _ => 1 << cfg.below(8),
    };
    let close_ip = if Ipv4Addr::from(b ^ flip) == server_ip { Ipv4Addr::from(b ^ 1) } else { Ipv4Addr::from(b ^ flip) };
    let client_addrs: Vec<SocketAddrV4> = vec![
        SocketAddrV4::new(base, 7001),
        SocketAddrV4::new(close_ip, 7001),
        SocketAddrV4::new(base, 7002),
        SocketAddrV4::new(if public { pub_ip(&mut cfg) } else { priv_ip(5000) }, 7003),
    ][..n_clients]
        .to_vec();
    let veto = if flavor == Flavor::C03 && cfg.chance(1, 4) {
        Some(*client_addrs[cfg.usize(0, n_clients - 1)].ip())
    } else {
        None
    };
    let veto_writes_only = veto.is_some() && Rng::new(crate::rng::key(ctx.seed, &[crate::rng::tag("veto-writes-only")])).chance(1, 2);
    if let Some(ip) = veto {
        settings.filter = Box::new(VetoFilter { ip, writes_only: veto_writes_only });
    }
    let mut spec = NodeSpec::new(server_ip, 6881).server();
    spec.settings = Some(settings.clone());
    spec.clock_ppm = match cfg.below(4) {
        0 => cfg.range(1_000, 50_000) as i64,
        1 => -(cfg.range(1_000, 50_000) as i64),
        _ => 0,
    };
    spec.wall_offset_us = match cfg.below(4) {
        0 => cfg.range(1, 120) as i64 * 1_000_000,
        1 => -(cfg.range(1, 120) as i64) * 1_000_000,
        _ => 0,
    };
    // a raw peer so that the server has a bootstrap address in half of the runs
    let boot_peer = SocketAddrV4::new(priv_ip(9000), 6881);
    if cfg.chance(1, 2) {
        spec.bootstrap = vec![boot_peer.to_string()];
    }
    let server_addr = spec.addr();

    // observer: store snapshot right after each consumed datagram
    let snaps: Rc<RefCell<BTreeMap<u64, Rc<Snapshot>>>> = Rc::new(RefCell::new(BTreeMap::new()));
    let server = {
        let snaps = snaps.clone();
        let sim2 = sim.clone();
        let server_cell: Rc<RefCell<Option<HostId>>> = Rc::new(RefCell::new(None));
        let sc = server_cell.clone();
        sim.set_observer(Box::new(move |host, _now, snap| {
            if Some(host) == *sc.borrow() || sc.borrow().is_none() {
                let c = sim2.consumed(host);
                snaps.borrow_mut().entry(c).or_insert_with(|| Rc::new(snap.clone()));
            }
        }));
        let h = sim.add_node(spec);
        *server_cell.borrow_mut() = Some(h);
        h
    };
    let t_server_start = 0u64;
    if let Some(d) = sim.died(server) {
        report.harness_error = Some(format!("server failed to start: {d}"));
        return finish(&sim, report);
    }
    // a second real server: source of "another node's" tokens
    let other_server = if cfg.chance(1, 2) {
        let mut s2 = NodeSpec::new(if public { pub_ip(&mut cfg) } else { priv_ip(1) }, 6881).server();
        s2.bootstrap = vec![];
        Some(sim.add_node(s2))
    } else {
        None
    };
    // public plans, 1 run in 2: the bootstrap peer stays silent until some instant of the history and then
    // answers, reporting the server's true address: the server confirms it with a self-ping and switches to
    // a BEP42-secure id in the middle of the history (tokens already handed out must stay good)
    let boot_answers_from: Option<u64> = if public && cfg.chance(1, 2) { Some(*cfg.pick(&[1u64, 5, 30, 120, 400, 900, 2000]) * SEC) } else { None };
    if let Some(from_t) = boot_answers_from {
        let boot_id = cfg.id();
        let _ = sim.add_raw(
            boot_peer,
            Some(Box::new(move |rctx, from, bytes| {
                if rctx.now < from_t {
                    return;
                }
                if let Some(k) = Krpc::parse(bytes) {
                    if k.is_query() {
                        let o = MsgOpts { ip: Some(from), ..MsgOpts::default() };
                        let r = Value::dict(vec![("id", Value::bytes(&boot_id)), ("nodes", Value::Bytes(vec![]))]);
                        rctx.reply(from, krpc::response(&k.tid, r, &o));
                    }
                }
            })),
        );
        report.probe("bootstrap_peer_answers_late_with_address_vote", 1);
    } else {
        let _ = sim.add_raw(boot_peer, None);
    }

    let mut clients: Vec<Client> = client_addrs
        .iter()
        .map(|a| {
            let (_, log) = logging_raw(&sim, *a);
            Client {
                addr: *a,
                id: cfg.id(),
                log,
                read: 0,
                tokens: vec![],
                next_tid: cfg.range(0, 60000) as u32,
            }
        })
        .collect();
    let mut foreign_tokens: Vec<Vec<u8>> = vec![];
    // a vetoed sender may claim anything, e.g. the server's own (public) node id
    if let Some(vip) = veto {
        if cfg.chance(1, 2) {
            sim.want_snapshot(server);
            sim.run_for(600 * MS);
            if let Some(sn) = sim.snapshot(server) {
                for c in clients.iter_mut().filter(|c| *c.addr.ip() == vip) {
                    c.id = sn.id;
                }
                report.probe("vetoed_client_claims_server_id", 1);
            }
        }
    }

    // ---- object universe
    let keys: Vec<_> = (0..3).map(|i| krpc::signing_key(crate::rng::Rng::new(ctx.seed ^ (i + 77)).bytes(32).try_into().unwrap())).collect();
    // the last one, a zero-length salt, has the target of "no salt" but another signable
    let salts: Vec<Option<Vec<u8>>> = vec![None, Some(b"a".to_vec()), Some(b"bb".to_vec()), Some(vec![b's'; 64]), Some(vec![])];
    let values: Vec<Vec<u8>> = vec![b"v0".to_vec(), b"v1".to_vec(), b"value-two".to_vec(), vec![7u8; 1000]];
    let imm_values: Vec<Vec<u8>> = vec![b"imm0".to_vec(), b"imm1".to_vec(), b"immutable-2".to_vec(), vec![9u8; 1000], vec![]];
    let info_hashes: Vec<Id> = (0..4).map(|_| cfg.id()).collect();
    let mut last_seq_sent: BTreeMap<Id, i64> = BTreeMap::new();

    let depth = match (flavor, ctx.tier) {
        (_, Tier::Quick) => cfg.usize(1, 24),
        (_, Tier::Thorough) => {
            if cfg.chance(1, 3) {
                cfg.usize(1, 3)
            } else {
                cfg.usize(4, 40)
            }
        }
    };
    let depth = enumerated.as_ref().map(|e| e.1.len()).unwrap_or(depth);
    report.elements = depth;
    let mut plan: Vec<String> = vec![];
    if let Some((cap, syms)) = &enumerated {
        plan.push(format!("enumerated history #{} (capacity {cap}): {syms:?}", ctx.index / 2));
        report.probe("enumerated_histories", 1);
        report.probe(&format!("enumerated_histories_depth_{}", syms.len()), 1);
    }
    plan.push(format!(
        "server {server_addr} ppm={} wall_offset_us={} caps(ih={},peers={},imm={},mut={}) veto={veto:?} clients={:?} net(dup={},slow={},drop={})",
        sim.node_spec(server).clock_ppm,
        sim.node_spec(server).wall_offset_us,
        settings.max_info_hashes,
        settings.max_peers_per_info_hash,
        settings.max_immutable_values,
        settings.max_mutable_values,
        client_addrs,
        net.dup_ppm,
        net.slow_ppm,
        net.drop_ppm
    ));

    let opts = MsgOpts::default();
    let learn = |clients: &mut Vec<Client>, foreign: &mut Vec<Vec<u8>>, now: u64| {
        for c in clients.iter_mut() {
            let log = c.log.borrow();
            for (_, from, bytes) in log[c.read..].iter() {
                if let Some(k) = Krpc::parse(bytes) {
                    if let Some(tok) = k.token() {
                        if *from == server_addr {
                            c.tokens.push((tok.to_vec(), now));
                        } else {
                            foreign.push(tok.to_vec());
                        }
                    }
                }
            }
            c.read = log.len();
        }
    };

    let keepalive = flavor == Flavor::C15 && cfg.chance(1, 4);
    let crowd_at: Option<usize> = if flavor == Flavor::C15 && depth >= 3 && Rng::new(crate::rng::key(ctx.seed, &[crate::rng::tag("c15-crowd")])).chance(1, 40) { Some(1 + (ctx.seed % (depth as u64 - 1)) as usize) } else { None };
    let own_put_at: Option<usize> = if flavor != Flavor::C15 && enumerated.is_none() && Rng::new(crate::rng::key(ctx.seed, &[crate::rng::tag("own-put")])).chance(1, 8) { Some((ctx.seed % depth as u64) as usize) } else { None };
    let flood_at: Option<usize> = if flavor == Flavor::C15 && depth >= 3 && cfg.chance(1, 40) { Some(cfg.usize(1, depth - 1)) } else { None };
    let mut keepalives = 0u64;
    for i in 0..depth {
        let mut r = Rng::new(crate::rng::key(ctx.seed, &[crate::rng::tag("op"), i as u64]));
        // time gap before this op
        let gap = match (flavor, r.below(20)) {
            (Flavor::C15, 0..=5) => r.range(10, 400) * SEC,
            (Flavor::C15, 6..=7) => r.range(400, 1500) * SEC,
            (_, 0) => r.range(30, 400) * SEC,
            (_, 1) => r.range(600, 1300) * SEC,
            _ => r.range(5, 1500) * MS,
        };
        let gap = if enumerated.is_some() { r.range(5, 50) * MS } else { gap };
        // C15, 1 run in 4: the node "keeps receiving requests" during long gaps - but only pings and
        // find_nodes, which neither issue nor check tokens (every 20..120 s)
        if keepalive && gap > 60 * SEC {
            let mut left = gap;
            while left > 0 {
                let step = (r.range(20, 120) * SEC).min(left);
                sim.run_for(step);
                left -= step;
                if left > 0 {
                    let ci = r.usize(0, clients.len() - 1);
                    let c = &mut clients[ci];
                    c.next_tid += 1;
                    let tid = krpc::tid_bytes(c.next_tid);
                    let bytes = if r.chance(1, 2) { krpc::query(&tid, "ping", krpc::ping_args(&c.id), &opts) } else { krpc::query(&tid, "find_node", krpc::find_node_args(&c.id, &r.id()), &opts) };
                    sim.raw_send(c.addr, server_addr, bytes);
                    keepalives += 1;
                }
            }
        } else {
            sim.run_for(gap);
        }
        if !ctx.enabled(i) {
            // keep the timeline, skip the datagram
            continue;
        }
        learn(&mut clients, &mut foreign_tokens, sim.now());
        // C15, 1 run in 40: a burst of 1100..3300 writes with guessed tokens from one client, within a few
        // seconds, somewhere in the history: each is rejected with 203, and none of them may touch the validity
        // of the tokens honest clients hold
        if flood_at == Some(i) {
            let fc = clients.len() - 1;
            let n = *r.pick(&[1100usize, 2200, 3300]);
            for j in 0..n {
                let c = &mut clients[fc];
                c.next_tid += 1;
                let tid = krpc::tid_bytes(c.next_tid);
                let guess = (j as u32).wrapping_mul(2_654_435_761).to_be_bytes().to_vec();
                let v = imm_values[0].clone();
                let bytes = krpc::query(&tid, "put", krpc::put_immutable_args(&c.id, &krpc::immutable_target(&v), &v, &guess), &opts);
                sim.raw_send(c.addr, server_addr, bytes);
                sim.run_for(MS);
            }
            report.probe("guessed_token_floods", 1);
            report.probe("guessed_token_flood_writes", n as u64);
            plan.push(format!("op[{i}] flood of {n} put_immutable with guessed tokens from {}", clients[fc].addr));
        }
        // C15, 1 run in 40: a *crowd* - 1100..3300 token-issuing reads from as many distinct source IPs within a
        // few seconds (a popular node): whatever the node remembers per requester, the tokens honest clients
        // hold stay good for their five minutes
        if crowd_at == Some(i) {
            let n = *r.pick(&[1100usize, 2200, 3300]);
            for j in 0..n {
                let src = SocketAddrV4::new(Ipv4Addr::new(20 + (j >> 16) as u8, (j >> 8) as u8, j as u8, 7), 7100);
                let tid = krpc::tid_bytes(500_000 + j as u32);
                let cid = r.id();
                let t = r.id();
                let bytes = if j % 2 == 0 { krpc::query(&tid, "get_peers", krpc::get_peers_args(&cid, &t), &opts) } else { krpc::query(&tid, "get", krpc::get_args(&cid, &t, None), &opts) };
                sim.raw_send(src, server_addr, bytes);
                sim.run_for(MS);
            }
            report.probe("requester_crowds", 1);
            report.probe("requester_crowd_reads", n as u64);
            plan.push(format!("op[{i}] crowd of {n} get/get_peers from distinct source IPs"));
        }
        // 1 run in 8: the application on the server node writes one of the keys itself (put_mutable through the
        // API, seq around what the clients use). Its writes go out to the network like anybody's; the node's
        // own store changes only through requests it receives and accepts.
        if own_put_at == Some(i) {
            let seq = r.range(0, 5) as i64;
            let k = &keys[r.usize(0, 1)];
            let item = dht::MutableItem::new(k, &values[r.usize(0, 2)], seq, None);
            let _ = sim.put_mutable(server, item, if r.chance(1, 3) { Some(r.range(0, 5) as i64) } else { None });
            report.probe("server_application_writes_a_key_itself", 1);
            plan.push(format!("op[{i}] the server's own application calls put_mutable(seq={seq})"));
        }
        let ci = r.usize(0, clients.len() - 1);
        let ci = if enumerated.is_some() { 0 } else { ci };
        // most writers look up first (token acquisition), like a real client
        if clients[ci].tokens.is_empty() && (r.chance(3, 4) || enumerated.is_some()) {
            let c = &mut clients[ci];
            c.next_tid += 1;
            let t = r.id();
            let bytes = krpc::query(&krpc::tid_bytes(c.next_tid), "get", krpc::get_args(&c.id, &t, None), &opts);
            plan.push(format!("[{i}] t={:.3}s client{ci}({}) -> {server_addr}: get {} (token acquisition)", sim.now() as f64 / SEC as f64, c.addr, hex8(&t)));
            sim.raw_send(c.addr, server_addr, bytes);
            sim.run_for(120 * MS);
            learn(&mut clients, &mut foreign_tokens, sim.now());
        }
        let now = sim.now();
        // token choice for writes
        let tok_choice = r.below(match flavor {
            Flavor::C15 => 10,
            _ => 14,
        });
        let tok_choice = if enumerated.is_some() { 13 } else { tok_choice };
        let own: Vec<(Vec<u8>, u64)> = clients[ci].tokens.clone();
        let (token, tok_label): (Vec<u8>, &str) = match tok_choice {
            0 => (own.first().map(|t| t.0.clone()).unwrap_or_default(), "oldest-own"),
            1 => {
                let others: Vec<&Client> = clients.iter().filter(|c| c.addr.ip() != clients[ci].addr.ip()).collect();
                let t = others.iter().filter_map(|c| c.tokens.last()).map(|t| t.0.clone()).next();
                (t.unwrap_or_else(|| r.bytes(4)), "other-ip")
            }
            2 => (foreign_tokens.last().cloned().unwrap_or_else(|| r.bytes(4)), "other-node"),
            3 => {
                let mut t = own.last().map(|t| t.0.clone()).unwrap_or_else(|| r.bytes(4));
                if !t.is_empty() {
                    let i = r.usize(0, t.len() - 1);
                    t[i] ^= 1 << r.below(8);
                }
                (t, "mutated")
            }
            4 => {
                if r.chance(1, 2) {
                    (vec![], "empty")
                } else {
                    // an attacker who knows the algorithm (CRC32C(ip || secret)) guesses weak secrets
                    let mut buf = clients[ci].addr.ip().octets().to_vec();
                    match r.below(4) {
                        0 => buf.extend_from_slice(&[0u8; 20]),
                        1 => buf.extend_from_slice(&[0xffu8; 20]),
                        2 => {}
                        _ => buf.extend_from_slice(&clients[ci].addr.ip().octets().repeat(5)),
                    }
                    (krpc::crc32c(&buf).to_be_bytes().to_vec(), "guessed-weak-secret")
                }
            }
            5 if flavor == Flavor::C15 => {
                let t = if own.is_empty() { vec![] } else { own[r.usize(0, own.len() - 1)].0.clone() };
                (t, "random-own")
            }
            _ => (own.last().map(|t| t.0.clone()).unwrap_or_default(), "latest-own"),
        };
        let c = &mut clients[ci];
        c.next_tid += 1;
        let tid = if r.chance(1, 5) { ((c.next_tid & 0xffff) as u16).to_be_bytes().to_vec() } else { krpc::tid_bytes(c.next_tid) };
        let kind_roll = r.below(100);
        let (bytes, label): (Vec<u8>, String) = if let Some((_, syms)) = &enumerated {
            match syms[i] {
                C04Sym::Put { key, seq, cas, val } => {
                    let k = &keys[key];
                    let target = krpc::mutable_target(&k.verifying_key().to_bytes(), None);
                    let item = Item::signed(k, None, seq, &values[val]);
                    (
                        krpc::query(&tid, "put", krpc::put_mutable_args(&c.id, &target, &item.v, &item.k, &item.sig, seq, cas, None, &token), &opts),
                        format!("put_mutable {} key{key} seq={seq} cas={cas:?} v=v{val} token={tok_label}", hex8(&target)),
                    )
                }
                C04Sym::Get { key, filter } => {
                    let target = krpc::mutable_target(&keys[key].verifying_key().to_bytes(), None);
                    (krpc::query(&tid, "get", krpc::get_args(&c.id, &target, filter), &opts), format!("get mutable {} seq={filter:?}", hex8(&target)))
                }
            }
        } else {
            let read_share = match flavor {
                Flavor::C03 => 35,
                Flavor::C04 => 35,
                Flavor::C15 => 45,
            };
            if kind_roll < read_share {
                // reads (token acquisition)
                match (flavor, r.below(6)) {
                    (Flavor::C04, _) | (_, 0) | (_, 1) => {
                        let key = &keys[r.usize(0, if flavor == Flavor::C04 { 1 } else { 2 })];
                        let salt = &salts[r.usize(0, 2)];
                        let target = krpc::mutable_target(&key.verifying_key().to_bytes(), salt.as_deref());
                        let seq = match r.below(4) {
                            0 => None,
                            _ => Some(r.range(0, 6) as i64 - 1),
                        };
                        (krpc::query(&tid, "get", krpc::get_args(&c.id, &target, seq), &opts), format!("get mutable {} seq={seq:?}", hex8(&target)))
                    }
                    (_, 2) => {
                        let v = &imm_values[r.usize(0, imm_values.len() - 1)];
                        let target = krpc::immutable_target(v);
                        (krpc::query(&tid, "get", krpc::get_args(&c.id, &target, None), &opts), format!("get immutable {}", hex8(&target)))
                    }
                    (_, 3) => {
                        let ih = info_hashes[r.usize(0, 3)];
                        (krpc::query(&tid, "get_peers", krpc::get_peers_args(&c.id, &ih), &opts), format!("get_peers {}", hex8(&ih)))
                    }
                    (_, 4) => {
                        let ih = info_hashes[r.usize(0, 3)];
                        (krpc::query(&tid, "get_signed_peers", krpc::get_peers_args(&c.id, &ih), &opts), format!("get_signed_peers {}", hex8(&ih)))
                    }
                    _ => {
                        if r.chance(1, 2) {
                            (krpc::query(&tid, "ping", krpc::ping_args(&c.id), &opts), "ping".into())
                        } else {
                            let t = r.id();
                            (krpc::query(&tid, "find_node", krpc::find_node_args(&c.id, &t), &opts), "find_node".into())
                        }
                    }
                }
            } else {
                let w = if flavor == Flavor::C04 { 1 } else { r.below(4) };
                match w {
                    0 => {
                        let variant = r.below(8);
                        let v = match variant {
                            0 => vec![5u8; *r.pick(&[1001usize, 1001, 1002, 1024, 1280, 1600])],
                            _ => imm_values[r.usize(0, imm_values.len() - 1)].clone(),
                        };
                        let mut target = krpc::immutable_target(&v);
                        let mut l = "valid";
                        if variant == 1 {
                            target = krpc::immutable_target(&imm_values[0]);
                            if v != imm_values[0] {
                                l = "wrong-hash(other value's target)";
                            }
                        } else if variant == 2 {
                            target[r.usize(0, 19)] ^= 1 << r.below(8);
                            l = "wrong-hash(bit flip)";
                        } else if variant == 0 {
                            l = "oversize";
                        }
                        (krpc::query(&tid, "put", krpc::put_immutable_args(&c.id, &target, &v, &token), &opts), format!("put_immutable {} len={} {l} token={tok_label}", hex8(&target), v.len()))
                    }
                    1 => {
                        let nkeys = if flavor == Flavor::C04 { 1 } else { 2 };
                        let ki = r.usize(0, nkeys);
                        let key = &keys[ki];
                        let si = if flavor == Flavor::C04 {
                            if r.chance(1, 4) {
                                4
                            } else {
                                r.usize(0, 1)
                            }
                        } else {
                            r.usize(0, 4)
                        };
                        let mut salt = salts[si].clone();
                        let pk = key.verifying_key().to_bytes();
                        let mut target = krpc::mutable_target(&pk, salt.as_deref());
                        let seq = r.range(0, 5) as i64;
                        let mut v = values[r.usize(0, if flavor == Flavor::C04 { 2 } else { 3 })].clone();
                        // (C04: mostly valid items; 1 in 8 with a bad signature / wrong target, which must leave the store as it is)
                        let variant = if flavor == Flavor::C04 {
                            if r.chance(1, 8) {
                                2 + r.below(4)
                            } else {
                                r.below(30) + 6
                            }
                        } else {
                            r.below(14)
                        };
                        let mut l = String::from("valid");
                        if variant == 0 {
                            v = vec![1u8; *r.pick(&[1001usize, 1001, 1002, 1024, 1280, 1500])];
                            l = format!("v={}", v.len());
                        } else if variant == 1 {
                            // over-long salts: just over the limit, and lengths whose low byte is small again
                            let n = *r.pick(&[65usize, 65, 66, 128, 255, 256, 257, 300, 320, 321, 512]);
                            salt = Some(vec![b'x'; n]);
                            target = krpc::mutable_target(&pk, salt.as_deref());
                            l = format!("salt={n}");
                        }
                        let mut item = Item::signed(key, salt.as_deref(), seq, &v);
                        if variant == 2 {
                            item.sig[r.usize(0, 63)] ^= 1 << r.below(8);
                            l = "bad-sig(bit flip)".into();
                        } else if variant == 3 {
                            // signed by another key, claims key ki
                            let other = &keys[(ki + 1) % 3];
                            item.sig = krpc::sign(other, &krpc::mutable_signable(seq, &v, salt.as_deref()));
                            l = "bad-sig(other key)".into();
                        } else if variant == 4 {
                            // valid signature, but stored under a target that is not SHA1(k||salt)
                            let other = &keys[(ki + 1) % 3];
                            target = krpc::mutable_target(&other.verifying_key().to_bytes(), salt.as_deref());
                            l = "wrong-target(other key's target)".into();
                        } else if variant == 5 {
                            target = krpc::mutable_target(&pk, salts[(si + 1) % 3].as_deref());
                            l = "wrong-target(other salt's target)".into();
                        }
                        let believed = last_seq_sent.get(&target).copied();
                        let cas = match r.below(6) {
                            0 => believed.or(Some(seq)),
                            1 => Some(believed.unwrap_or(0) + 1 + r.below(2) as i64),
                            2 => Some(seq - 1),
                            _ => None,
                        };
                        last_seq_sent.insert(target, seq);
                        (
                            krpc::query(&tid, "put", krpc::put_mutable_args(&c.id, &target, &item.v, &item.k, &item.sig, seq, cas, salt.as_deref(), &token), &opts),
                            format!("put_mutable {} key{ki} salt#{si} seq={seq} cas={cas:?} v={}B {l} token={tok_label}", hex8(&target), item.v.len()),
                        )
                    }
                    2 => {
                        let ih = info_hashes[r.usize(0, 3)];
                        // (boundary ports included: an explicit 0 is recorded as given)
                        let port = match r.below(10) {
                            0 => 0u16,
                            1 => *r.pick(&[1u16, 65535, 1023, 1024]),
                            _ => r.range(1, 65535) as u16,
                        };
                        // BEP5: any non-zero value means "use the source port"
                        let implied = match r.below(5) {
                            0 => Some(1),
                            1 => Some(0),
                            2 => Some(*r.pick(&[2i64, 3, 7, 128, 255])),
                            _ => None,
                        };
                        let rid = if r.chance(1, 2) { c.id } else { r.id() };
                        (krpc::query(&tid, "announce_peer", krpc::announce_peer_args(&rid, &ih, port, implied, &token), &opts), format!("announce_peer {} port={port} implied={implied:?} token={tok_label}", hex8(&ih)))
                    }
                    _ => {
                        let ih = info_hashes[r.usize(0, 3)];
                        let key = &keys[r.usize(0, 2)];
                        let off_s: i64 = *r.pick(&[0, 0, 0, 40, -40, 44, -44, 46, -46, 50, -50, 3600, -3600]);
                        let wall = sim.host_wall_us(server) as i64;
                        let t = (wall + off_s * 1_000_000).max(0) as u64;
                        let mut sig = krpc::sign(key, &krpc::signed_announce_signable(&ih, t));
                        let mut l = "valid-sig";
                        match r.below(8) {
                            0 => {
                                sig[r.usize(0, 63)] ^= 1;
                                l = "bad-sig";
                            }
                            1 => {
                                sig = krpc::sign(key, &krpc::signed_announce_signable(&info_hashes[(r.usize(0, 2) + 1) % 4], t));
                                l = "sig-for-other-infohash-maybe";
                            }
                            _ => {}
                        }
                        (
                            krpc::query(&tid, "announce_signed_peer", krpc::announce_signed_peer_args(&c.id, &ih, &key.verifying_key().to_bytes(), &sig, t as i64, &token), &opts),
                            format!("announce_signed_peer {} t=server_wall{off_s:+}s {l} token={tok_label}", hex8(&ih)),
                        )
                    }
                }
            }
        };
        let dst = if other_server.is_some() && r.chance(1, 12) && enumerated.is_none() { sim.node_addr(other_server.unwrap()) } else { server_addr };
        plan.push(format!("[{i}] t={:.3}s client{ci}({}) -> {dst}: {label}", now as f64 / SEC as f64, c.addr));
        sim.raw_send(c.addr, dst, bytes);
        // to the other server: always a plain get to collect a foreign token
        sim.run_for(80 * MS);
    }
    sim.run_for(4 * SEC);

    // ---- model pass, in the order the server consumed the datagrams
    let mut model = Model {
        veto,
        veto_writes_only,
        imm: Lru::new(settings.max_immutable_values),
        mutable: Lru::new(settings.max_mutable_values),
        peers: Lru::new(settings.max_info_hashes),
        signed: Lru::new(settings.max_info_hashes),
        max_peers: settings.max_peers_per_info_hash,
        tokens: vec![],
        req_times: vec![],
        rot_worlds: vec![(sim.host_clock_at(server, t_server_start), 0)],
        rot_counts: vec![],
        probes: BTreeMap::new(),
    };
    struct Consumed {
        order: u64,
        t: u64,
        src: SocketAddrV4,
        bytes: Rc<[u8]>,
        id: usize,
    }
    let (consumed, mut replies): (Vec<Consumed>, BTreeMap<(SocketAddrV4, u32), Vec<Rc<[u8]>>>) = sim.with_trace(|tr| {
        let mut c: Vec<Consumed> = tr
            .iter()
            .filter(|d| d.to_host == Some(server) && d.consumed.is_some())
            .map(|d| Consumed {
                order: d.consumed.unwrap(),
                t: d.t_deliver.unwrap_or(d.t_send),
                src: d.src,
                bytes: d.bytes.clone(),
                id: d.id,
            })
            .collect();
        c.sort_by_key(|c| c.order);
        let mut replies: BTreeMap<(SocketAddrV4, u32), Vec<Rc<[u8]>>> = BTreeMap::new();
        for d in tr.iter().filter(|d| d.from_host == Some(server) && d.dup_of.is_none()) {
            if let Some(k) = Krpc::parse(&d.bytes) {
                if !k.is_query() {
                    replies.entry((d.dst, k.tid_u32().unwrap_or(u32::MAX))).or_default().push(d.bytes.clone());
                }
            }
        }
        (c, replies)
    });
    let snaps = snaps.borrow();
    let mut count = 0u64;
    let mut order_fp = 0u64;
    for c in &consumed {
        count += 1;
        let Some(req) = Krpc::parse(&c.bytes) else { continue };
        if !req.is_query() {
            continue;
        }
        order_fp = crate::rng::key(order_fp, &[crate::rng::tag(&req.label()), u32::from(*c.src.ip()) as u64, c.src.port() as u64]);
        let reply = {
            let q = replies.get_mut(&(c.src, req.tid_u32().unwrap_or(u32::MAX)));
            match q {
                Some(v) if !v.is_empty() => Some(v.remove(0)),
                _ => None,
            }
        };
        let reply_parsed = reply.as_ref().and_then(|b| Krpc::parse(b));
        if !well_typed(&req) {
            continue;
        }
        let mono = sim.host_clock_at(server, c.t);
        let wall = sim.host_wall_us_at(server, c.t);
        let newest = {
            // which key was (possibly) written by this request, per store
            let q = req.query_name().unwrap_or("");
            let t = req.id_field("target");
            let ih = req.id_field("info_hash");
            match q {
                "put" if req.body.get("k").is_some() => (None, t, None, None),
                "put" => (t, None, None, None),
                "announce_peer" => (None, None, ih, None),
                "announce_signed_peer" => (None, None, None, ih),
                _ => (None, None, None, None),
            }
        };
        let res = model.process(count, mono, wall, c.src, &req, reply_parsed.as_ref()).and_then(|_| match snaps.get(&count) {
            Some(s) => model.reconcile(s, newest),
            None => Ok(()),
        });
        if let Err((class, key, detail)) = res {
            report.violate(&class, &key, format!("datagram #{} ({} from {}): {detail}", c.id, req.label(), c.src));
            break;
        }
    }
    // replies nobody asked for
    if report.violation.is_none() {
        for ((dst, tid), v) in &replies {
            if !v.is_empty() && consumed.iter().any(|c| c.src == *dst) {
                let had = consumed.iter().any(|c| c.src == *dst && Krpc::parse(&c.bytes).map(|k| k.tid_u32() == Some(*tid) && well_typed(&k)).unwrap_or(false));
                if had {
                    report.violate("reply", "extra-reply", format!("{} extra replies sent to {dst} for tid {tid}", v.len()));
                    break;
                }
            }
        }
    }
    if let Some(d) = sim.died(server) {
        report.violate("crash", "server-died", format!("server actor died: {d}"));
    }
    let writes = model.probes.get("write_rejected").copied().unwrap_or(0)
        + model.probes.get("mutable_write_accepted").copied().unwrap_or(0)
        + model.probes.get("immutable_write_accepted").copied().unwrap_or(0)
        + model.probes.get("peer_announce_accepted").copied().unwrap_or(0)
        + model.probes.get("signed_announce_accepted").copied().unwrap_or(0);
    report.nontrivial = writes > 0;
    report.fingerprint = order_fp;
    for (k, v) in &model.probes {
        report.probe(k, *v);
    }
    report.probe("requests_consumed", consumed.len() as u64);
    report.probe("keepalive_pings_and_find_nodes", keepalives);
    report.plan_dump = Some(plan.join("\n"));
    report.sample = Some(json!({"history": plan.iter().take(12).collect::<Vec<_>>(), "consumed": consumed.len()}));
    let _ = Value::Int(0);
    finish(&sim, report)
}
